"""Registry of harness executables and per-property jobs (what check.py runs for each property)."""

HARNESSES = {
    "codec": dict(src=["harness/h_codec.cpp"], flavour="asan"),
}

ENGINE_TEXT = {
    "codec": "rapidcheck + exhaustive choice-tree enumeration on CdnsEncoder/CdnsDecoder, ASan+UBSan",
}
NOT_APPLICABLE = {}

# cases / size: (quick, thorough).  kind: rc (rapidcheck search, split over workers), enum (exhaustive
# depth-first enumeration of the property's choice tree, sharded on the first choice), py (python side job).
PROPS = {
    "C06": dict(
        rule="cells: fill level 0..BUFFER_SIZE x 18 write operations x boundary arguments (exhaustive), all 2^8/2^16 values of the "
             "8/16-bit overloads (exhaustive), random call sequences over name/fd x none/gzip/xz; oracle = independent reference "
             "encoder (bytes and per-call return value). Non-trivial: call issued with <9 bytes free, or a string spanning a flush, "
             "or a value within +-1 of a head-width boundary (sequences: output > one buffer and a boundary value). "
             "Distinct = hash of the choice sequence.",
        level_text="exhaustive over fill level x operation x boundary argument and over all 8/16-bit values, random call sequences "
                   "beyond; differential against an independent reference encoder",
        level_note="trusts the reference encoder in lib/cbor_ref.hpp (transcribed from RFC 8949) and zlib/liblzma decompression",
        technique="property-based testing: exhaustive small-scope enumeration + rapidcheck call sequences vs reference encoder",
        assumptions=["CdnsEncoder::BUFFER_SIZE is taken from the header", "zlib/liblzma decoders are correct"],
        jobs=[
            dict(harness="codec", prop="c06_cell", kind="enum"),
            dict(harness="codec", prop="c06_vals", kind="enum", workers=4),
            dict(harness="codec", prop="c06_seq", cases=(4000, 80000), size=(30, 80)),
        ],
    ),
}
