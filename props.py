"""Registry of harness executables and per-property jobs (what check.py runs for each property)."""

HARNESSES = {
    "codec": dict(src=["harness/h_codec.cpp"], flavour="asan"),
    "hist": dict(src=["harness/h_hist.cpp"], flavour="asan"),
    "reread": dict(src=["harness/h_reread.cpp"], flavour="asan"),
    "tstamp": dict(src=["harness/h_tstamp.cpp"], flavour="asan"),
    "tables": dict(src=["harness/h_tables.cpp"], flavour="asan"),
    "writers": dict(src=["harness/h_writers.cpp"], flavour="asan"),
    "tools": dict(src=["harness/h_tools.cpp"], flavour="asan"),
    "mutread": dict(src=["harness/h_mutread.cpp"], flavour="asan"),
    "mutread_plain": dict(src=["harness/h_mutread.cpp"], flavour="plain"),
    "fuzz_reader": dict(src=["harness/fuzz_reader.cpp"], flavour="asan", ldflags=["-fsanitize=fuzzer"], libs=[]),
    "fuzz_decoder": dict(src=["harness/fuzz_decoder.cpp"], flavour="asan", ldflags=["-fsanitize=fuzzer"], libs=[]),
    "fuzz_rewrite": dict(src=["harness/fuzz_rewrite.cpp"], flavour="asan", ldflags=["-fsanitize=fuzzer"], libs=["-lrapidcheck"]),
    "cdns-merge": dict(src=["REPO/src/bin/cdns_merge.cpp"], flavour="asan", libs=[]),
    "cdns-itemcount": dict(src=["REPO/src/bin/cdns_itemcount.cpp"], flavour="asan", libs=[]),
    "cdns-items": dict(src=["REPO/src/bin/cdns_items.cpp"], flavour="asan", libs=[]),
    "cdns-blocks": dict(src=["REPO/src/bin/cdns_blocks.cpp"], flavour="asan", libs=[]),
    "cdns-preamble": dict(src=["REPO/src/bin/cdns_preamble.cpp"], flavour="asan", libs=[]),
    "mt": dict(src=["harness/h_mt.cpp"], flavour="tsan", libs=["-lrapidcheck", "-lpthread"]),
    "crash": dict(src=["harness/h_crash.cpp"], flavour="asan", ldflags=["-rdynamic"], libs=["-lrapidcheck", "-ldl"]),
}

ENGINE_TEXT = {
    "codec": "rapidcheck + exhaustive choice-tree enumeration on CdnsEncoder/CdnsDecoder, ASan+UBSan",
    "tools": "rapidcheck inputs for the real CLI tools (sanitizer builds of src/bin/*.cpp) run as subprocesses",
    "mutread": "rapidcheck structure-aware mutation of valid files into CdnsReader / CdnsDecoder, ASan+UBSan, allocation cap",
    "mutread_plain": "uninstrumented build of the mutread harness, replayed under valgrind memcheck (thorough tier)",
    "fuzz_rewrite": "libFuzzer target: bytes = choices of the C08 rewrite-plan generator (FuzzChooser), metamorphic oracle inside the target",
    "fuzz_reader": "libFuzzer target: bytes -> CdnsReader, accessors, renderers",
    "fuzz_decoder": "libFuzzer target: bytes -> CdnsDecoder operation program",
    "cdns-merge": "tool under test (sanitizer build)", "cdns-itemcount": "tool under test (sanitizer build)", "cdns-items": "tool under test (sanitizer build)",
    "cdns-blocks": "tool under test (sanitizer build)", "cdns-preamble": "tool under test (sanitizer build)",
    "mt": "generated thread workloads under ThreadSanitizer, sequential vs concurrent differential",
    "crash": "rapidcheck scenarios x exhaustive crash/fault points; write/writev/rename interposed in the executable; fork per crash point; ASan+UBSan",
    "writers": "rapidcheck + enumerated large-chunk classes on CborOutputWriter/Gzip/Xz writers, ASan+UBSan",
    "tstamp": "exhaustive grid + rapidcheck on Timestamp with __int128 reference, ASan+UBSan",
    "tables": "rapidcheck state machines on CdnsBlock tables and block copies, ASan+UBSan",
    "reread": "rapidcheck on CdnsReader over truncated / re-encoded / generated files, ASan+UBSan",
    "hist": "rapidcheck model-based API histories on CdnsExporter/CdnsBlock with reference exporter model and independent reader, ASan+UBSan",
}
NOT_APPLICABLE = {}

# cases / size: (quick, thorough).  kind: rc (rapidcheck search, split over workers), enum (exhaustive
# depth-first enumeration of the property's choice tree, sharded on the first choice), py (python side job).
PROPS = {
    "C06": dict(
        rule="cells: fill level 0..BUFFER_SIZE x 18 write operations x boundary arguments (exhaustive), all 2^8/2^16 values of the "
             "8/16-bit overloads (exhaustive), random call sequences over name/fd x none/gzip/xz; oracle = independent reference "
             "encoder (bytes and per-call return value). Non-trivial: call issued with <9 bytes free, or a string spanning a flush, "
             "or a value within +-1 of a head-width boundary (sequences: output > one buffer and a boundary value). "
             "Distinct = hash of the choice sequence.",
        level_text="exhaustive over fill level x operation x boundary argument and over all 8/16-bit values, random call sequences "
                   "beyond; differential against an independent reference encoder",
        level_note="trusts the reference encoder in lib/cbor_ref.hpp (transcribed from RFC 8949) and zlib/liblzma decompression",
        technique="property-based testing: exhaustive small-scope enumeration + rapidcheck call sequences vs reference encoder",
        assumptions=["CdnsEncoder::BUFFER_SIZE is taken from the header", "zlib/liblzma decoders are correct"],
        jobs=[
            dict(harness="codec", prop="c06_cell", kind="enum"),
            dict(harness="codec", prop="c06_vals", kind="enum", workers=4),
            dict(harness="codec", prop="c06_seq", cases=(4000, 80000), size=(30, 80)),
        ],
    ),

    "C01": dict(
        rule="generated API histories (buffer_qr/aec/mm with all optional-member subsets, boundary integers, pools for repeated table values, "
             "RR lists; 1..3 parameter sets with any hint masks / tick rates / block sizes; write_block and parameter switches interleaved; "
             "none/gzip/xz, name/fd). Oracle: reference exporter model -> expected blocks; file read by the independent RFC 8618 reader AND by "
             "CdnsReader+read_generic_*; all three must agree (records exact, AEC multiset, statistics per block). Non-trivial: >=2 records reached "
             "the file and (non-default hints | tps != 1e6 | >1 set used | >=2 blocks | a value >= 2^16 or negative | an RR list). Distinct = hash of choice sequence.",
        level_text="model-based random histories with shrinking; differential against an independent RFC 8618 interpretation and against the library reader",
        level_note="trusts lib/cbor_ref.hpp + lib/cdns_ref.hpp (written from RFC 8949/8618, no library code) and the reference exporter model in harness/h_hist.cpp",
        technique="property-based testing: stateful model-based histories (rapidcheck) with round-trip + independent-reader differential oracle",
        assumptions=["timestamps normalised and below 2^63 ticks (property precondition)", "response question list governed by the query-question-sections hint bit (library documentation)",
                     "statistics are not attached to calls that store nothing when max_block_items == 0 (excluded by construction, counted)"],
        jobs=[
            dict(harness="hist", prop="hist_c01align", kind="enum"),
            dict(harness="hist", prop="hist_c01", cases=(12000, 300000), size=(40, 120)),
            dict(harness="hist", prop="hist_c01big", cases=(600, 20000), size=(40, 150)),
            dict(harness="hist", prop="hist_c01huge", cases=(64, 3200), size=(40, 60)),
        ],
    ),
    "C02": dict(
        rule="generated API histories including write_block(external block built through CdnsBlock::add_*), rotate_output, add/set block parameters, "
             "present-but-empty BlockStatistics / CollectionParameters / signature / RPD / QRE / MMD / index lists. Oracle per closed output: zero "
             "uncompressed bytes iff the model wrote no block, else strict RFC 8949 parse to exact end + RFC 8618 schema validation (types, mandatory members, "
             "every stored index in range, no duplicate keys). Non-trivial: output with >=1 block whose history has an empty optional structure | external block | "
             "rotation | parameter switch | block > 2 KiB.",
        level_text="model-based random histories with shrinking; every closed output validated by an independent strict CBOR parser + schema validator",
        level_note="validator checks exactly the conditions listed in the property (no CDDL '+' cardinalities, no canonical order); trusts lib/cbor_ref.hpp, lib/cdns_ref.hpp",
        technique="property-based testing: stateful histories (rapidcheck) + independent strict parser/validator as oracle",
        assumptions=["ae-transport-flags treated as optional (the library API makes it optional)"],
        jobs=[
            dict(harness="hist", prop="hist_c02align", kind="enum"),
            dict(harness="hist", prop="hist_c02", cases=(12000, 300000), size=(40, 120)),
        ],
    ),
    "C04": dict(
        rule="records with ~7/8 of all optional members set x hint masks (all-ones, all-zero, exactly one bit cleared, exactly one bit set, random; several sets per file). "
             "Oracle on the independent parse: no member whose hint bit is clear (Q/R item, signature, RR, AEC/MM arrays), every table entry reachable from a stored item, "
             "preamble states the configured masks, and completeness via the C01 record comparison restricted to this profile. Non-trivial: mask != all-ones and >=1 record stored.",
        level_text="generated records x structured hint masks; absence/reachability/completeness oracles on an independent parse",
        level_note="bit<->member map transcribed from the RFC 8618 StorageHints tables; asn/country/rtt have no bit",
        technique="property-based testing: generated configurations (single-bit sweeps + random masks) with invariant oracle on independent parse",
        assumptions=["response question list governed by query-question-sections (library documentation)"],
        jobs=[dict(harness="hist", prop="hist_c04", cases=(20000, 400000), size=(25, 60))],
    ),
    "C10": dict(
        rule="(b) every serialisable structure (ClassType, QueryResponseSignature, Question, RR, MalformedMessageData, IndexListItem, StringItem, ResponseProcessingData, QueryResponseExtended, "
             "BlockPreamble, BlockStatistics, Timestamp, AddressEventCount, QueryResponse, MalformedMessage, BlockParameters, StorageParameters, StorageHints, CollectionParameters, whole CdnsBlock) with "
             "generated content incl. present-but-empty ones: write(encoder) on an encoder that receives only that call must return exactly the size of the output, which must be exactly one well-formed item. "
             "(a) C02 history generator (all compression modes, name/fd, rotations, external blocks, large strings). Oracle: per output, sum of the values returned by "
             "buffer_*/write_block*/rotate_output since it was opened == uncompressed size (+1 closing byte when closed by destruction with >=1 block). "
             "Non-trivial: >=1 block and (block > 2 KiB | rotation | compression | empty optional structure).",
        level_text="model-free accounting identity checked over random histories; independent decompression",
        level_note="exporter and serialisation sums, plus the exhaustive encoder cell sweep shared with C06 for the return value of every encoder call",
        technique="property-based testing: stateful histories (rapidcheck) with accounting invariant",
        assumptions=[],
        jobs=[
            dict(harness="hist", prop="hist_c10align", kind="enum"),
            dict(harness="hist", prop="hist_c10", cases=(8000, 100000), size=(40, 120)),
            dict(harness="tables", prop="c10_struct", cases=(48000, 1600000), size=(30, 60)),
            dict(harness="codec", prop="c06_cell", kind="enum"),   # encoder level: every write call's return value (fill level x operation x boundary argument)
        ],
    ),
    "C12": dict(
        rule="(a) EXHAUSTIVE: every sequence of length 5 (thorough: 7) over the alphabet {qr storable, qr unstorable, aec key1, aec key2, mm, write_block, set_active(other set), counter query} x "
             "max_block_items in {0,1,2,3} x AEC hint on/off x MM hint on/off (16 configurations, second set with another size); (b) random: "
             "histories over buffer_qr(storable/unstorable)/buffer_aec(repeating keys)/buffer_mm/write_block/set_active/counter queries with max_block_items in {0,1,2,3,5} "
             "and 2..3 parameter sets. Oracle after every step: return value non-zero <=> reference model flushed; four counters + active index equal the model; at the end the file "
             "holds exactly the model's blocks (sizes, order, AEC counts), none empty, none above its maximum. Non-trivial: a flush caused by a buffer call with >=2 item kinds, or a "
             "parameter switch followed by a flush.",
        level_text="reference state machine (from the documentation) compared step by step over random histories",
        level_note="max_block_items == 0 modelled as 1 (property statement); unstorable records on an empty max-0 block with a pending parameter switch are excluded by construction",
        technique="property-based testing: stateful model-based testing (rapidcheck), invariant after every step",
        assumptions=[],
        jobs=[
            dict(harness="hist", prop="hist_c12enum", kind="enum", size=(5, 7)),
            dict(harness="hist", prop="hist_c12", cases=(10000, 60000), size=(40, 120)),
        ],
    ),
    "C13": dict(
        rule="rotation-rich histories (rotate_output name|fd with export in {0,1}, consecutive rotations, rotation after add+set parameters), all compression modes. Oracle: each closed output "
             "snapshotted right after rotate_output returns (final name exists, no .part), empty or schema-valid with every block-parameters-index < sets of that file's preamble, byte-identical "
             "at the end of the history; concatenated record stream over outputs == submitted stream (model). Exhaustive alignment sweep (first record string of every length 0..2250 x 8 endings). "
             "Many blocks: outputs receiving 65535 / 65536 / 65537 (thorough also 131072 / 131075) one-record blocks, closed by exporting rotation, non-exporting rotation or destruction, must be "
             "complete documents holding exactly their records. Non-trivial: rotation with blocks on the closed side | non-exporting rotation "
             "with non-empty buffer | consecutive rotations.",
        level_text="model-based random histories; per-output snapshot/validation and record-stream conservation",
        level_note="records still buffered at destruction are by design not written (documented usage calls write_block first); the model accounts for them as buffered",
        technique="property-based testing: stateful histories (rapidcheck) with snapshot + conservation oracle",
        assumptions=[],
        jobs=[
            dict(harness="hist", prop="hist_c13align", kind="enum"),
            dict(harness="hist", prop="c13_many_blocks", kind="enum", size=(30, 80)),
            dict(harness="hist", prop="hist_c13", cases=(8000, 200000), size=(40, 120)),
        ],
    ),

    "C05": dict(
        rule="(a) decoder level, exhaustive: streams of exactly n bytes for every n in {0..40} u {k*65535+d: k=1..3, d=-40..40} x 12 operations at the end x "
             "{istringstream, ifstream, unopened ifstream, ifstream on a missing file} x {one-byte items, string+items}; after the n-th byte every operation must throw "
             "CdnsDecoderEnd (unreadable streams: any std::exception, never a value). (b) file level: generated valid files (padded so that |f|, a block end or the first block "
             "falls within +-3 of a multiple of 65535 in 3/4 of the cases), prefix lengths exhaustive within +-3 of every block boundary / window multiple / 0 / |f| plus "
             "sampled positions; the reader must return exactly the blocks wholly contained (identical dump to the full file) and then throw CdnsDecoderEnd; a third of the prefixes "
             "are read through a copy of the reader object made after 0..2 blocks; variants with a definite-length block array ending in a 65-140 KB string. "
             "Non-trivial: n==0 or n within 40 of a window multiple (a); 0<n<|f| near a window multiple or block boundary or file with >=2 blocks (b).",
        level_text="exhaustive over the stated stream lengths/operations/stream kinds; generated files x exhaustive boundary prefixes; block offsets from an independent parse",
        level_note="CdnsDecoder::BUFFER_SIZE taken from the header; CdnsDecoderEnd is the library's documented end-of-input type",
        technique="property-based testing: exhaustive small-scope enumeration + generated files with exhaustive boundary truncation",
        assumptions=[],
        jobs=[
            dict(harness="codec", prop="c05_stream", kind="enum"),
            dict(harness="reread", prop="c05_file", cases=(640, 8000), size=(30, 80)),
        ],
    ),
    "C07": dict(
        rule="items from the full RFC 8949 grammar (all major types, nested containers, tags, floats, simple values) emitted by the reference encoder under a random rewrite plan "
             "(wider heads, indefinite containers, chunked strings), placed so that the first byte lies at every offset -12..12 around the first two window multiples (exhaustive sweep "
             "for 14 shapes) and at random offsets, followed by a sentinel. Oracle: typed read returns the generator's value; skip_item()/typed read is followed by read_unsigned()==sentinel "
             "and then end of input. Nesting chains of depth 1000..150000 (thorough 400000; arrays, maps, tags, definite and indefinite, mixed) written directly as bytes must be skipped as one item. "
             "Non-trivial: non-preferred/indefinite/nested/tagged/float item or item straddling a window boundary.",
        level_text="generated well-formed items vs ground truth, exhaustive offset sweep around the window boundary",
        level_note="ground truth comes from the generator; encodings are re-checked by the independent strict parser before use",
        technique="property-based testing: grammar-based generation with ground truth + exhaustive boundary sweep",
        assumptions=["read_negative/read_integer only asked for int64-representable values"],
        jobs=[
            dict(harness="codec", prop="c07_sweep", kind="enum"),
            dict(harness="codec", prop="c07_item", cases=(240000, 4000000), size=(30, 80)),
            dict(harness="codec", prop="c07_deep", cases=(480, 16000), size=(30, 80)),
        ],
    ),
    "C08": dict(
        rule="valid file from the exporter (generated content, several parameter sets, all item kinds) re-emitted under a generated rewrite plan at a random subset of nodes: "
             "definite<->indefinite containers, chunked strings (text at UTF-8 boundaries), widened heads, permuted map members, unknown integer keys (|key|>=64) with arbitrary "
             "well-formed values (tags, floats, nesting to depth 30; in one case of eight additionally an unknown member nested 1000..120000 deep (thorough 300000) spliced into the preamble or first block map). Oracle (metamorphic): canonical dump of CdnsReader output identical for both files; the independent reader must "
             "also interpret both identically (guards the rewriter). Non-trivial: >=1 rewrite applied and >=1 block.",
        level_text="metamorphic relation over generated files and generated semantics-preserving rewrites",
        level_note="only RFC-equivalent rewrites: array order kept, no duplicate keys, no tags around known members",
        technique="property-based testing: metamorphic testing with structure-aware rewriter",
        assumptions=[],
        extra_harnesses=["fuzz_rewrite", "mutread"],
        jobs=[
            dict(harness="reread", prop="c08_rewrite", cases=(12000, 100000), size=(30, 80)),
            dict(kind="py", func="fuzz", tiers=("thorough",), targets=["fuzz_rewrite"], runs=(0, 0), max_total_time=(0, 600), procs=(0, 6), max_len=4096, seed_corpus=False),
        ],
    ),
    "C09": dict(
        rule="generated FilePreamble values (versions 0..255, private version present/absent, 1..8 sets, every subset of optional members, full-width integers, arbitrary opcode/rr-type "
             "lists, UTF-8 text, collection parameters absent/empty/partial/full) written through CdnsExporter and through FilePreamble::write, read back by CdnsReader / "
             "FilePreamble::read (also into a previously used object) and by the independent parser; member-for-member equality. Over histories (hist_c09): generated exporter "
             "histories with rotations, blocks written in between, parameter sets added and activated - the preamble of EVERY output, as interpreted by the independent reader, equals the "
             "preamble as constructed (with the sets known when that output's header was written). Non-trivial: >=2 sets or an optional member set or private version absent; "
             "histories: >=2 outputs with blocks.",
        level_text="round trip over generated preambles, library reader and independent reader",
        level_note="list members of CollectionParameters are plain vectors in the API: empty == absent",
        technique="property-based testing: round-trip with independent-reader differential",
        assumptions=[],
        jobs=[dict(harness="reread", prop="c09_preamble", cases=(120000, 2000000), size=(30, 30)),
              dict(harness="hist", prop="hist_c09", cases=(8000, 160000), size=(30, 60))],
    ),

    "C11": dict(
        rule="(a) state machine over the nine tables of a CdnsBlock: add (pool values to force repeats, fresh values from large domains to force growth/rehash, neighbours differing in "
             "exactly one member, always separately built objects), find, get, clear, snapshot / rollback by block assignment (copy and move; the value handled last re-added first), hash-colliding value pairs found by a birthday search, "
             "one case in 160 starting with a table of 40000..72000 (thorough 140000) entries, periodic full verification, up to ~300 ops; reference = map value->index. Oracle: equal value -> same "
             "index and no growth, new value -> unused index, get(i) keeps denoting the value stored at i until clear, find agrees, a==b => hash(a)==hash(b). (a2) a block filled by the decoder (CdnsBlockRead(dec, params) on a library-written file): every string / class-type entry added again and the records it was written from "
             "buffered again - same indices, no table grows. (b) record streams through the "
             "exporter with tiny max_block_items: in the independent parse of every block no two equal entries in any table, every entry reachable from that block's own items, every "
             "index in range. Non-trivial: >=1 dedup hit and (>=16 distinct entries or a clear) (a); >=2 flushed blocks (b).",
        level_text="model-based state machine on the table API plus invariants on the independent parse of exporter output",
        level_note="index numbering itself is not asserted (only stability, uniqueness and closure, as the property states)",
        technique="property-based testing: stateful model-based testing (rapidcheck) + invariant over independent parse",
        assumptions=[],
        jobs=[
            dict(harness="tables", prop="c11_tables", cases=(8000, 60000), size=(30, 100)),
            dict(harness="tables", prop="c11_readblock", cases=(8000, 60000), size=(30, 60)),
            dict(harness="hist", prop="hist_c11", cases=(6000, 50000), size=(40, 120)),
        ],
    ),
    "C17": dict(
        rule="(a) exhaustive grid tps in {1,2,3,7,10,1000} x secs,ref_secs in 0..6 x all tick pairs (49.8M pairs): get_time_offset == exact difference, add_time_offset(offset) reproduces the "
             "instant normalised, operator< / <= agree with instants; offsets landing within +-3 s of the epoch, INT64_MIN, tps==0: refusal by std::runtime_error leaves the value unchanged. "
             "(b,c) boundary x boundary (0,1,2^31+-1,2^32+-1, 2262 limit, largest representable second) and random over tps in [1,1e9], offsets {0,+-1,+-tps, epoch, epoch-1, INT64_MIN, random}; "
             "128-bit reference arithmetic; UBSan on. (d) exporter histories with timed/untimed Q/R and MM in random arrival order: in the independent parse earliest-time <= every record time and every "
             "record time equals the submitted one. Non-trivial: borrow/carry across a second, boundary value or refused offset (a-c); history with >=2 records (d).",
        level_text="exhaustive small grid + boundary/random cases against arbitrary-precision reference; block-level invariant on independent parse",
        level_note="offsets whose result would exceed 2^63-1 ticks are outside the quantifier and not generated",
        technique="property-based testing: exhaustive grid + rapidcheck with __int128 reference model",
        assumptions=[],
        jobs=[
            dict(harness="tstamp", prop="c17_grid", kind="enum", workers=6),
            dict(harness="tstamp", prop="c17_arith", cases=(800000, 16000000), size=(30, 30)),
            dict(harness="hist", prop="hist_c17", cases=(6000, 150000), size=(30, 80)),
        ],
    ),
    "C19": dict(
        rule="source block (default or generated block parameters) built by generated add_* / generic record adds, or returned by CdnsReader::read_block and assigned (onto a fresh or an already used "
             "object; half of the files carry duplicate table entries, as a non-de-duplicating RFC 8618 encoder writes them); second block obtained by copy ctor, move ctor, copy/move assignment "
             "(onto empty and non-empty), CdnsBlockRead variants; then the source is left, modified, cleared or destroyed (heap allocated: ASan sees stale references) and a generated sequence of "
             "re-adds of existing values / new values / gets / serialisation runs on the copy. Oracle: a block rebuilt from scratch with the same content returns the same indices and serialises to the "
             "same independent interpretation and the same 'block full' flags; tables and generic records of reader-derived copies equal the independent interpretation of the file; the copy is unaffected by the source and vice versa. Non-trivial: source destroyed or cleared before an add of an already-present value on the copy.",
        level_text="model-based sequences with a rebuilt-from-scratch reference block, under AddressSanitizer",
        level_note="serialisations are compared through the independent parser (AEC order is unspecified)",
        technique="property-based testing: stateful differential testing against a rebuilt reference, ASan as memory oracle",
        assumptions=[],
        jobs=[dict(harness="tables", prop="c19_value", cases=(32000, 200000), size=(30, 80))],
    ),

    "C14": dict(
        rule="generated plans of write(chunk)/rotate_output on GzipCborOutputWriter and XzCborOutputWriter for file-name and descriptor targets: chunk sizes 0, 1, 2047/2048/2049, 65535/65536, "
             "random up to 700 KiB (thorough 3 MiB); data classes zeros / repeating text / incompressible / mixed; plus enumerated large chunks (1, 4, 6.5, 9 MiB; thorough up to 48 MiB) x gzip/xz x name/fd "
             "x incompressible/mixed, each followed by a rotation; plus enumerated volume runs (9 MiB, thorough 20 MiB, of mixed data in chunks of 2048 / 16384 bytes into one output) x gzip/xz x name/fd; rotations first attempted onto a destination that cannot be opened (must be refused by both writers) and, for named outputs, rotations "
             "onto the name that is already open (the finished file is replaced); plus end-to-end exporter histories with gzip/xz forced. Oracle: the same plan on the plain writer; every compressed output must be one "
             "complete stream (strict independent zlib/liblzma decoding, nothing after it), carry the .gz/.xz suffix, and decompress byte for byte to the plain output. Non-trivial: bytes > 0 and "
             "(>=2 writes | rotation | chunk >= 64 KiB).",
        level_text="differential against the plain writer over generated write plans, enumerated large-chunk classes, independent decompression",
        level_note="chunks above 48 MiB are not tried; python gzip/lzma is replaced by direct zlib/liblzma decoders in strict single-stream mode",
        technique="property-based testing: differential testing over generated call plans + enumerated size classes",
        assumptions=["zlib inflate / liblzma stream decoder are correct"],
        jobs=[
            dict(harness="writers", prop="c14_large", kind="enum", size=(30, 80)),
            dict(harness="writers", prop="c14_volume", kind="enum", size=(30, 80), workers=8),
            dict(harness="writers", prop="c14_plan", cases=(1600, 60000), size=(30, 80)),
            dict(harness="hist", prop="hist_c14", cases=(3000, 80000), size=(40, 100)),
        ],
    ),

    "C15": dict(
        level="fault_enumeration",
        rule="generated scenarios on named outputs (plain/gzip/xz; 1..4 outputs; ordinary names, names whose last path component is 251..255 characters long, names whose '.part' path is occupied by a "
             "directory - the library refuses the latter two -, names whose '.part' file (96 KB) is left over from an earlier killed run; destruction during stack unwinding; record sizes 10 B..30 KB so that some outputs need many OS writes and some none before close; rotation onto fresh names, "
             "onto names holding a complete older file, onto names used earlier in the scenario; destruction with and without buffered data) x EVERY crash point k = 1..N, where the process is killed "
             "(_exit) immediately before its k-th write/writev/rename (interposed in the harness, counted by a fault-free reference run in a forked child). Oracle: every directory entry not ending "
             "in .part is byte-identical to the pre-existing file of that name or to a completed output of that name (snapshots of the reference run, each validated as a complete stream + valid document). "
             "Non-trivial: scenario with N > 1 and a rotation or compression; exhaustive over k per scenario. Without a crash (hist_c15align, exhaustive): a scripted history on a named output whose first "
             "record carries a string of every length 0..2250 x 8 record endings (strings, 9-/5-/3-/2-byte integers last), so that the end of the last block and the closing break fall on every position of the "
             "encoder buffer: every file found under a final name is one complete valid document.",
        level_text="exhaustive enumeration of crash points (system-call granularity) for each generated scenario; fork per point",
        level_note="crash = process death between system calls as the property defines it; says nothing about un-synced data after power loss; outputs are deterministic across forked children",
        technique="property-based testing with fault injection: generated scenarios x exhaustive crash-point enumeration",
        assumptions=["write/writev/rename are the only output-related system calls of the library (ofstream uses writev, Writer<int> uses write, std::rename uses rename)"],
        jobs=[dict(harness="crash", prop="c15_crash", cases=(1600, 48000), size=(30, 60)),
              dict(harness="hist", prop="hist_c15align", kind="enum")],
    ),
    "C16": dict(
        level="fault_enumeration",
        rule="(a) exhaustive alignment sweep: one block ending in a text string (or name) of every length 0..2250, closed by rotate_output(fd,false), so that for some length the encoder buffer is exactly "
             "full at the rotation and write_break() itself issues a write; x every fault point x fault kind. (b) the C15 scenarios for file-name AND descriptor outputs x EVERY fault point k = 1..N (k-th write/writev) x {ENOSPC, EIO, short write} x {once, persistent for that file}; after the first "
             "exception the documented recovery runs (rotate_output to a healthy destination without export, write_block, destruction). Oracles: (a) if the output hit by the fault differs from the "
             "fault-free one, some API call up to the rotate_output closing it threw; (b) after an exception from buffer_qr/write_block the item counter equals the failed block's size; (c) recovery rotate "
             "succeeds, the recovery output is valid, and every record of the failed block appears exactly once in the recovery output or in the (valid) damaged output. Failures are reduced to the signature "
             "<oracle, output kind, compression, API call during which the fault fired, once|persistent|short> and matched against known_findings.txt. Non-trivial: the fault fired and bytes were lost.",
        level_text="exhaustive enumeration of fault points x fault kinds for each generated scenario, in-process",
        level_note="destruction cannot throw and is outside the guarantee; short writes that libstdc++ retries successfully lose nothing and demand nothing",
        technique="property-based testing with fault injection: generated scenarios x exhaustive fault-point enumeration, signature-based known findings",
        assumptions=["a persistent failure is tied to the file (device, inode), not to the descriptor number"],
        jobs=[
            dict(harness="crash", prop="c16_align", kind="enum"),
            dict(harness="crash", prop="c16_faults", cases=(480, 1600), size=(30, 40)),
        ],
    ),

    "C20": dict(
        rule="T in {2,3,4,5,8,12,16} threads, each assigned 1..4 generated workloads: export generated records to its own output (name or fd, none/gzip/xz, with rotations, refused rotations, exporters abandoned after a refusal), "
             "read a pre-generated file (as written, re-encoded with unknown members, truncated or damaged) back and render preamble/blocks/records with string(), build and copy blocks, Timestamp arithmetic; in 1/3 of the cases all threads run the same workload class. All workloads are "
             "generated in the main thread, run once each alone in a thread of its own (reference), then run concurrently from threads started on a barrier. Oracle: no ThreadSanitizer report (library and harness built with "
             "-fsanitize=thread, halt_on_error) and every result (output bytes hash, rendered text hash, indices) identical to the isolated run. Non-trivial: >=2 threads were simultaneously inside "
             "the same workload class (atomic overlap counters).",
        level_text="generated concurrent workloads under ThreadSanitizer's happens-before detection plus differential against sequential execution",
        level_note="only executed code can race; uninstrumented zlib/liblzma internals are invisible; the claim is 'no shared mutable state is touched by the generated workloads', not schedule completeness",
        technique="property-based testing: generated thread workloads, TSan race detection + sequential/concurrent differential",
        assumptions=["outputs of a workload are deterministic when run alone (checked: the sequential reference is compared with the concurrent run)"],
        stall=300,
        jobs=[dict(harness="mt", prop="c20_threads", cases=(640, 12000), size=(20, 40), args=["--shrink-budget", "60"])],
    ),

    "C03": dict(
        case_timeout=120,
        rule="(1) valid file from the exporter -> generated plan of 1..4 structure-aware edits on the CBOR tree (declared length/count -> boundary values up to 2^64-1, integers -> boundaries, "
             "index members just past their table, major type swapped, additional info 28..31, subtree replaced by a nesting chain of depth up to 2000 (thorough 200000; decoder streams up to 10^6), subtree "
             "duplicated/deleted/moved, unknown members, malformed domain names / addresses of length 0..20, ticks-per-second / earliest-time / offsets -> 0, 2^63, 2^64-1, huge declared string length / array count "
             "on short content, huge max-block-items together with huge item counts, tick rate together with time offsets at boundary values, unknown members whose value declares 2^63..2^64-1 bytes / elements "
             "incl. the lengths that wrap around 2^64 to the item itself; a fifth of the seed files span 2-3 decoder windows) + truncation / byte flips -> CdnsReader, every block, read_generic_qr/aec/mm, string() of preamble, blocks, items, table entries and generic records, block copies; the same bytes through the lower-level API (own CdnsDecoder, ONE CdnsBlockRead object reused via read() for all blocks "
             "and drained through the accessors also after a failed read). (2) CdnsDecoder operation programs (12 operations) over mutated files, generated item streams with byte edits, nesting chains and arbitrary CBOR-looking bytes. (3) the five command line tools as "
             "real subprocesses on mutated files (cdns-merge also with a second, valid input). (4) libFuzzer campaigns on the reader and the decoder from an empty and from a generator-made corpus. "
             "Oracle: no ASan/UBSan/_GLIBCXX_ASSERTIONS report, no stack overflow on the default 8 MiB stack, no single allocation above 64 MiB (inputs <= 1 MiB), only std::exception-derived errors, tools "
             "exit with status 0/1 and no signal; garbage differential: reader / decoder constructed in storage pre-filled with 0x00 and with 0xA5, fresh heap blocks (replaced operator new) and the stack below "
             "the call filled with the same pattern - everything observable must be identical; termination: a case (input <= 1 MiB) that runs longer than 120 s, or a tool that does not exit within 120 s, "
             "three times in isolation, is a violation. Non-trivial: input differs from its seed and processing got past the file header, or the decoder program executed >= 3 operations; fuzzing: inputs kept by "
             "libFuzzer for new coverage.",
        level_text="structure-aware mutation search plus coverage-guided fuzzing under ASan+UBSan with an allocation cap; tools run as subprocesses",
        level_note="time/memory proportionality is checked through the allocation cap (64 MiB per allocation for inputs <= 1 MiB), the default stack limit and a per-case time limit (120 s, confirmed by three isolated replays; a search budget that runs out is inconclusive, never a violation); uninitialised reads through the garbage differential (own storage, fresh heap blocks, stack) in the quick tier and valgrind memcheck on a slice of the cases in the thorough tier",
        technique="property-based testing (structure-aware mutation, rapidcheck) + libFuzzer coverage-guided fuzzing, sanitizers as oracle",
        assumptions=["std::bad_alloc / std::length_error are accepted failures unless the allocation cap fired"],
        extra_harnesses=["cdns-merge", "cdns-itemcount", "cdns-items", "cdns-blocks", "cdns-preamble", "mutread", "mutread_plain", "fuzz_reader", "fuzz_decoder"],
        jobs=[
            dict(harness="mutread", prop="c03_reader", cases=(64000, 400000), size=(40, 100), env=dict(ASAN_OPTIONS="max_allocation_size_mb=64")),
            dict(harness="mutread", prop="c03_decoder", cases=(64000, 400000), size=(40, 100), env=dict(ASAN_OPTIONS="max_allocation_size_mb=64")),
            dict(harness="tools", prop="c03_tools", cases=(1600, 48000), size=(30, 60)),
            dict(kind="py", func="fuzz", targets=["fuzz_reader", "fuzz_decoder"], runs=(150000, 0), max_total_time=(0, 600), procs=(2, 4), max_len=16384),
            dict(kind="py", func="valgrind_slice", tiers=("thorough",), props=[("c03_reader", 300), ("c03_decoder", 150)]),
        ],
    ),
    "C18": dict(
        rule="tuples of 1..5 inputs for cdns-merge: files written by the exporter from generated content (own preamble, tick rate, hints, several sets, statistics, AEC, MM), re-encoded with a chosen version "
             "(default / other major / other minor / other private / private absent), optionally with an item-less block inserted, truncated at a random offset behind the header, the same path twice, an empty file, "
             "a missing path, random bytes. The real tool (sanitizer build) runs as a subprocess. Oracle: R = inputs the independent parser reads as C-DNS with the first readable input's version (truncated: wholly "
             "contained blocks); the output must validate and its block sequence must equal the concatenation of R's non-empty blocks in argument order: records, AEC, statistics equal (absolute times) and the "
             "resolved parameter set equal to the source's; nothing expected => no data; exit status 0. cdns-itemcount with {none,-b,-p,-b -p}: numbers on stdout equal the independent parse. "
             "Non-trivial: >=2 contributing inputs with different parameters, or a rejected/truncated member next to a contributing one.",
        level_text="generated input tuples through the real tools as subprocesses; expected output computed from an independent parse of the inputs",
        level_note="wording and number of diagnostics are not part of the guarantee and not checked; the other inspection tools are covered for safety by C03",
        technique="property-based testing: differential testing of CLI tools against an independent reference interpretation",
        assumptions=[],
        extra_harnesses=["cdns-merge", "cdns-itemcount"],
        jobs=[
            dict(harness="tools", prop="c18_merge", cases=(4800, 40000), size=(30, 60)),
            dict(harness="tools", prop="c18_itemcount", cases=(2400, 20000), size=(20, 60)),
        ],
    ),
}
