"""Registry of harness executables and per-property jobs (what check.py runs for each property)."""

HARNESSES = {
    "codec": dict(src=["harness/h_codec.cpp"], flavour="asan"),
    "hist": dict(src=["harness/h_hist.cpp"], flavour="asan"),
}

ENGINE_TEXT = {
    "codec": "rapidcheck + exhaustive choice-tree enumeration on CdnsEncoder/CdnsDecoder, ASan+UBSan",
    "hist": "rapidcheck model-based API histories on CdnsExporter/CdnsBlock with reference exporter model and independent reader, ASan+UBSan",
}
NOT_APPLICABLE = {}

# cases / size: (quick, thorough).  kind: rc (rapidcheck search, split over workers), enum (exhaustive
# depth-first enumeration of the property's choice tree, sharded on the first choice), py (python side job).
PROPS = {
    "C06": dict(
        rule="cells: fill level 0..BUFFER_SIZE x 18 write operations x boundary arguments (exhaustive), all 2^8/2^16 values of the "
             "8/16-bit overloads (exhaustive), random call sequences over name/fd x none/gzip/xz; oracle = independent reference "
             "encoder (bytes and per-call return value). Non-trivial: call issued with <9 bytes free, or a string spanning a flush, "
             "or a value within +-1 of a head-width boundary (sequences: output > one buffer and a boundary value). "
             "Distinct = hash of the choice sequence.",
        level_text="exhaustive over fill level x operation x boundary argument and over all 8/16-bit values, random call sequences "
                   "beyond; differential against an independent reference encoder",
        level_note="trusts the reference encoder in lib/cbor_ref.hpp (transcribed from RFC 8949) and zlib/liblzma decompression",
        technique="property-based testing: exhaustive small-scope enumeration + rapidcheck call sequences vs reference encoder",
        assumptions=["CdnsEncoder::BUFFER_SIZE is taken from the header", "zlib/liblzma decoders are correct"],
        jobs=[
            dict(harness="codec", prop="c06_cell", kind="enum"),
            dict(harness="codec", prop="c06_vals", kind="enum", workers=4),
            dict(harness="codec", prop="c06_seq", cases=(4000, 80000), size=(30, 80)),
        ],
    ),

    "C01": dict(
        rule="generated API histories (buffer_qr/aec/mm with all optional-member subsets, boundary integers, pools for repeated table values, "
             "RR lists; 1..3 parameter sets with any hint masks / tick rates / block sizes; write_block and parameter switches interleaved; "
             "none/gzip/xz, name/fd). Oracle: reference exporter model -> expected blocks; file read by the independent RFC 8618 reader AND by "
             "CdnsReader+read_generic_*; all three must agree (records exact, AEC multiset, statistics per block). Non-trivial: >=2 records reached "
             "the file and (non-default hints | tps != 1e6 | >1 set used | >=2 blocks | a value >= 2^16 or negative | an RR list). Distinct = hash of choice sequence.",
        level_text="model-based random histories with shrinking; differential against an independent RFC 8618 interpretation and against the library reader",
        level_note="trusts lib/cbor_ref.hpp + lib/cdns_ref.hpp (written from RFC 8949/8618, no library code) and the reference exporter model in harness/h_hist.cpp",
        technique="property-based testing: stateful model-based histories (rapidcheck) with round-trip + independent-reader differential oracle",
        assumptions=["timestamps normalised and below 2^63 ticks (property precondition)", "response question list governed by the query-question-sections hint bit (library documentation)",
                     "statistics are not attached to calls that store nothing when max_block_items == 0 (excluded by construction, counted)"],
        jobs=[
            dict(harness="hist", prop="hist_c01", cases=(12000, 300000), size=(40, 120)),
            dict(harness="hist", prop="hist_c01big", cases=(600, 20000), size=(40, 150)),
        ],
    ),
    "C02": dict(
        rule="generated API histories including write_block(external block built through CdnsBlock::add_*), rotate_output, add/set block parameters, "
             "present-but-empty BlockStatistics / CollectionParameters / signature / RPD / QRE / MMD / index lists. Oracle per closed output: zero "
             "uncompressed bytes iff the model wrote no block, else strict RFC 8949 parse to exact end + RFC 8618 schema validation (types, mandatory members, "
             "every stored index in range, no duplicate keys). Non-trivial: output with >=1 block whose history has an empty optional structure | external block | "
             "rotation | parameter switch | block > 2 KiB.",
        level_text="model-based random histories with shrinking; every closed output validated by an independent strict CBOR parser + schema validator",
        level_note="validator checks exactly the conditions listed in the property (no CDDL '+' cardinalities, no canonical order); trusts lib/cbor_ref.hpp, lib/cdns_ref.hpp",
        technique="property-based testing: stateful histories (rapidcheck) + independent strict parser/validator as oracle",
        assumptions=["ae-transport-flags treated as optional (the library API makes it optional)"],
        jobs=[dict(harness="hist", prop="hist_c02", cases=(12000, 300000), size=(40, 120))],
    ),
    "C04": dict(
        rule="records with ~7/8 of all optional members set x hint masks (all-ones, all-zero, exactly one bit cleared, exactly one bit set, random; several sets per file). "
             "Oracle on the independent parse: no member whose hint bit is clear (Q/R item, signature, RR, AEC/MM arrays), every table entry reachable from a stored item, "
             "preamble states the configured masks, and completeness via the C01 record comparison restricted to this profile. Non-trivial: mask != all-ones and >=1 record stored.",
        level_text="generated records x structured hint masks; absence/reachability/completeness oracles on an independent parse",
        level_note="bit<->member map transcribed from the RFC 8618 StorageHints tables; asn/country/rtt have no bit",
        technique="property-based testing: generated configurations (single-bit sweeps + random masks) with invariant oracle on independent parse",
        assumptions=["response question list governed by query-question-sections (library documentation)"],
        jobs=[dict(harness="hist", prop="hist_c04", cases=(10000, 250000), size=(25, 60))],
    ),
    "C10": dict(
        rule="C02 history generator (all compression modes, name/fd, rotations, external blocks, large strings). Oracle: per output, sum of the values returned by "
             "buffer_*/write_block*/rotate_output since it was opened == uncompressed size (+1 closing byte when closed by destruction with >=1 block). "
             "Non-trivial: >=1 block and (block > 2 KiB | rotation | compression | empty optional structure).",
        level_text="model-free accounting identity checked over random histories; independent decompression",
        level_note="encoder-level return values are decided by C06; this check covers exporter/serialisation sums",
        technique="property-based testing: stateful histories (rapidcheck) with accounting invariant",
        assumptions=[],
        jobs=[dict(harness="hist", prop="hist_c10", cases=(8000, 200000), size=(40, 120))],
    ),
    "C12": dict(
        rule="histories over buffer_qr(storable/unstorable)/buffer_aec(repeating keys)/buffer_mm/write_block/set_active/counter queries with max_block_items in {0,1,2,3,5} "
             "and 2..3 parameter sets. Oracle after every step: return value non-zero <=> reference model flushed; four counters + active index equal the model; at the end the file "
             "holds exactly the model's blocks (sizes, order, AEC counts), none empty, none above its maximum. Non-trivial: a flush caused by a buffer call with >=2 item kinds, or a "
             "parameter switch followed by a flush.",
        level_text="reference state machine (from the documentation) compared step by step over random histories",
        level_note="max_block_items == 0 modelled as 1 (property statement); unstorable records on an empty max-0 block with a pending parameter switch are excluded by construction",
        technique="property-based testing: stateful model-based testing (rapidcheck), invariant after every step",
        assumptions=[],
        jobs=[dict(harness="hist", prop="hist_c12", cases=(10000, 250000), size=(40, 200))],
    ),
    "C13": dict(
        rule="rotation-rich histories (rotate_output name|fd with export in {0,1}, consecutive rotations, rotation after add+set parameters), all compression modes. Oracle: each closed output "
             "snapshotted right after rotate_output returns (final name exists, no .part), empty or schema-valid with every block-parameters-index < sets of that file's preamble, byte-identical "
             "at the end of the history; concatenated record stream over outputs == submitted stream (model). Non-trivial: rotation with blocks on the closed side | non-exporting rotation "
             "with non-empty buffer | consecutive rotations.",
        level_text="model-based random histories; per-output snapshot/validation and record-stream conservation",
        level_note="records still buffered at destruction are by design not written (documented usage calls write_block first); the model accounts for them as buffered",
        technique="property-based testing: stateful histories (rapidcheck) with snapshot + conservation oracle",
        assumptions=[],
        jobs=[dict(harness="hist", prop="hist_c13", cases=(8000, 200000), size=(40, 120))],
    ),
}
