#!/usr/bin/env python3
"""Regenerates MANIFEST.json from props.py (single source of truth for what is claimed)."""
import json, os, sys
sys.path.insert(0, os.path.dirname(os.path.abspath(__file__)))
from props import PROPS, HARNESSES, ENGINE_TEXT, NOT_APPLICABLE

ids = [json.loads(l)["id"] for l in open("/verif/properties.jsonl")]
checks = []
for pid in ids:
    if pid not in PROPS:
        continue
    P = PROPS[pid]
    checks.append({
        "property_id": pid,
        "quick_cmd": "python3 check.py %s quick" % pid,
        "thorough_cmd": "python3 check.py %s thorough" % pid,
        "evidence_file": "/verif/evidence/%s.json" % pid,
        "replay_cmd_template": "python3 check.py %s --replay {path}" % pid,
        "engine": ",".join(sorted(set(j["harness"] for j in P["jobs"] if "harness" in j))),
        "level_claimed": {"category": P.get("level", "exploration"), "text": P["level_text"], "design_ref": "DESIGN.md section 5 " + pid},
        "level_note": P["level_note"],
        "technique": P["technique"],
    })
na = [{"property_id": pid, "reason": NOT_APPLICABLE.get(pid, "check not built yet in this revision of /verif (work in progress; see DESIGN.md section 5 for the planned check)")}
      for pid in ids if pid not in PROPS]
serves = {}
for pid, P in PROPS.items():
    for j in P["jobs"]:
        if "harness" in j:
            serves.setdefault(j["harness"], set()).add(pid)
    for h in P.get("extra_harnesses", []):
        serves.setdefault(h, set()).add(pid)
engines = [{"name": h, "path": ",".join(HARNESSES[h]["src"]), "serves_properties": sorted(serves.get(h, [])), "kind_free_text": ENGINE_TEXT.get(h, "")} for h in sorted(HARNESSES)]
m = {
    "version": 1,
    "setup_cmd": "python3 check.py --setup",
    "hooks": {
        "guard": "CDNS_VERIF",
        "enable": "every verification build passes -DCDNS_VERIF (check.py COMMON flags); no line of /repo tests it: buffer sizes are public constants, system calls are interposed inside the harness executables, tools are renamed with -Dmain=",
        "baseline_off_cmd": "cmake -S /repo -B /repo/_build -G Ninja -DBUILD_TESTS=ON -DBUILD_DOC=OFF >/dev/null && cmake --build /repo/_build >/dev/null && ctest --test-dir /repo/_build -j8 --timeout 900",
        "source_commits": [],
        "add_only": True,
    },
    "engines": engines,
    "checks": checks,
    "not_applicable": na,
    "notes": "All checks are driven by check.py; build products live in /verif/build/<hash of repo path>/ and are rebuilt from /repo's working tree whenever the content of src/ changes. Known findings: /verif/known_findings.txt.",
}
json.dump(m, open("/verif/MANIFEST.json", "w"), indent=1)
print("MANIFEST.json: %d checks, %d not_applicable" % (len(checks), len(na)))
