#!/usr/bin/env python3
"""Driver of the c-dns verification machinery (property-based testing and fuzzing).

  python3 check.py <ID> <quick|thorough>     run the check of one property (MANIFEST quick_cmd / thorough_cmd)
  python3 check.py <ID> --replay <file>      replay one saved case (choice file or raw fuzz input)
  python3 check.py --setup                   build every flavour and harness for the current tree
  python3 check.py --list

Environment: VERIF_SEED (int, default 1), VERIF_TIER (overrides the tier argument), VERIF_REPO
(default /repo; lets the self test point the same checks at a scratch copy), VERIF_JOBS (default: cores).

Exit 0: the property held on everything explored (KNOWN-FINDING lines may be printed).
Exit 1: a line "VIOLATION property=<id> replay=<path>" was printed.
"""
import fcntl
import hashlib
import json
import os
import re
import shutil
import subprocess
import sys
import time
from concurrent.futures import ThreadPoolExecutor

VERIF = os.path.dirname(os.path.abspath(__file__))
REPO = os.path.realpath(os.environ.get("VERIF_REPO", "/repo"))
JOBS = int(os.environ.get("VERIF_JOBS", str(os.cpu_count() or 4)))
GUARD = "CDNS_VERIF"
CXX = "clang++"

sys.path.insert(0, VERIF)
from props import PROPS, HARNESSES  # noqa: E402

BUILD = os.path.join(VERIF, "build", hashlib.sha1(REPO.encode()).hexdigest()[:10])

COMMON = ["-std=gnu++17", "-g", "-O1", "-msse4", "-D_GLIBCXX_ASSERTIONS", "-D" + GUARD,
          "-fno-omit-frame-pointer", "-Wno-deprecated-declarations", "-I" + os.path.join(REPO, "src"), "-I" + os.path.join(VERIF, "lib")]
FLAVOURS = {
    # library objects of the asan flavour carry libFuzzer coverage instrumentation as well
    "asan": dict(cflags=["-fsanitize=address,undefined", "-fno-sanitize-recover=undefined", "-fno-sanitize=alignment"],
                 libcflags=["-fsanitize=fuzzer-no-link"], ldflags=["-fsanitize=address,undefined"]),
    "tsan": dict(cflags=["-fsanitize=thread"], libcflags=[], ldflags=["-fsanitize=thread"]),
    "plain": dict(cflags=[], libcflags=[], ldflags=[]),
}
LIBS = ["-lz", "-llzma"]


def log(*a):
    print(*a, file=sys.stderr, flush=True)


def sha_file(p):
    h = hashlib.sha1()
    with open(p, "rb") as f:
        h.update(f.read())
    return h.hexdigest()


def repo_sources():
    d = os.path.join(REPO, "src")
    return sorted(os.path.join(d, f) for f in os.listdir(d) if f.endswith(".cpp"))


def repo_headers():
    d = os.path.join(REPO, "src")
    return sorted(os.path.join(d, f) for f in os.listdir(d) if f.endswith(".h"))


def verif_headers():
    out = []
    for sub in ("lib", "harness"):
        d = os.path.join(VERIF, sub)
        out += sorted(os.path.join(d, f) for f in os.listdir(d) if f.endswith((".hpp", ".inc", ".h")))
    return out


_hash_cache = {}


def hfile(p):
    if p not in _hash_cache:
        _hash_cache[p] = sha_file(p)
    return _hash_cache[p]


def tree_hash():
    h = hashlib.sha1()
    for p in repo_sources() + repo_headers() + [os.path.join(REPO, "src", "bin", f) for f in sorted(os.listdir(os.path.join(REPO, "src", "bin")))]:
        h.update(p.encode())
        h.update(hfile(p).encode())
    return h.hexdigest()[:12]


def run_cmd(cmd, **kw):
    return subprocess.run(cmd, stdout=subprocess.PIPE, stderr=subprocess.STDOUT, text=True, **kw)


class Builder:
    """Content-addressed incremental build: a target is rebuilt when the hash of its command line and of
    the content of its inputs differs from the signature stored next to it."""

    def __init__(self):
        os.makedirs(BUILD, exist_ok=True)
        self.lock = open(os.path.join(BUILD, ".lock"), "w")

    def need(self, target, sig):
        try:
            with open(target + ".sig") as f:
                return f.read() != sig or not os.path.exists(target)
        except OSError:
            return True

    def done(self, target, sig):
        with open(target + ".sig", "w") as f:
            f.write(sig)

    def sig(self, cmd, inputs):
        h = hashlib.sha1(" ".join(cmd).encode())
        for p in inputs:
            h.update(hfile(p).encode())
        return h.hexdigest()

    def compile_many(self, tasks):
        """tasks: list of (target, cmd, inputs). Runs those that are stale, in parallel."""
        todo = []
        for target, cmd, inputs in tasks:
            s = self.sig(cmd, inputs)
            if self.need(target, s):
                todo.append((target, cmd, s))
        if not todo:
            return
        log("[build] %d target(s) to (re)build in %s" % (len(todo), BUILD))

        def one(t):
            target, cmd, s = t
            os.makedirs(os.path.dirname(target), exist_ok=True)
            r = run_cmd(cmd)
            if r.returncode != 0:
                return (target, r.stdout)
            self.done(target, s)
            return None

        with ThreadPoolExecutor(max_workers=JOBS) as ex:
            res = list(ex.map(one, todo))
        # a compiler killed by memory pressure (other jobs on the machine) is retried, one target at a time
        failed = [t for t, r in zip(todo, res) if r]
        errs = []
        for t in failed:
            r = None
            for _ in range(2):
                time.sleep(2)
                r = one(t)
                if r is None:
                    break
            if r:
                errs.append(r)
        if errs:
            for target, out in errs:
                log("[build] FAILED %s\n%s" % (target, out[-6000:]))
            raise SystemExit(3)

    def build(self, harness_names):
        fcntl.flock(self.lock, fcntl.LOCK_EX)
        try:
            t0 = time.time()
            flav_needed = sorted(set(HARNESSES[h]["flavour"] for h in harness_names))
            rh = repo_headers()
            vh = verif_headers()
            # 1. library objects
            tasks = []
            libobjs = {}
            for fl in flav_needed:
                F = FLAVOURS[fl]
                objs = []
                for src in repo_sources():
                    obj = os.path.join(BUILD, fl, "lib", os.path.basename(src)[:-4] + ".o")
                    cmd = [CXX] + COMMON + F["cflags"] + F["libcflags"] + ["-c", src, "-o", obj]
                    tasks.append((obj, cmd, [src] + rh))
                    objs.append(obj)
                libobjs[fl] = objs
            self.compile_many(tasks)
            # 2. harness objects (and tool objects)
            tasks = []
            links = []
            for h in harness_names:
                H = HARNESSES[h]
                F = FLAVOURS[H["flavour"]]
                objs = []
                for src in H["src"]:
                    srcp = src if os.path.isabs(src) else os.path.join(VERIF, src)
                    if src.startswith("REPO/"):
                        srcp = os.path.join(REPO, src[5:])
                    obj = os.path.join(BUILD, H["flavour"], "h", h + "__" + os.path.basename(srcp).replace(".cpp", "") + ".o")
                    cmd = [CXX] + COMMON + F["cflags"] + H.get("cflags", []) + ["-c", srcp, "-o", obj]
                    tasks.append((obj, cmd, [srcp] + rh + vh))
                    objs.append(obj)
                exe = os.path.join(BUILD, "bin", h)
                lcmd = [CXX] + F["ldflags"] + H.get("ldflags", []) + objs + libobjs[H["flavour"]] + H.get("libs", ["-lrapidcheck"]) + LIBS + ["-o", exe]
                links.append((exe, lcmd, objs + libobjs[H["flavour"]]))
            self.compile_many(tasks)
            for o in [x for _, _, ins in links for x in ins]:
                _hash_cache.pop(o, None)
            self.compile_many(links)
            dt = time.time() - t0
            if dt > 1:
                log("[build] done in %.1fs" % dt)
        finally:
            fcntl.flock(self.lock, fcntl.LOCK_UN)

    def exe(self, h):
        return os.path.join(BUILD, "bin", h)


def splitmix(*xs):
    h = hashlib.sha256(("/".join(str(x) for x in xs)).encode()).digest()
    return int.from_bytes(h[:4], "big") % 2000000000 + 1


def load_known():
    known, fixed = [], []
    p = os.path.join(VERIF, "known_findings.txt")
    if os.path.exists(p):
        for line in open(p):
            line = line.strip()
            if not line or line.startswith("#"):
                continue
            m = re.match(r"known:\s+property=(\S+)\s+sig=(\S+)\s+(.*)", line)
            if m:
                known.append(dict(prop=m.group(1), sig=m.group(2), what=m.group(3)))
            elif line.startswith("fixed:"):
                fixed.append(line)
    return known, fixed


ASAN_ENV = dict(
    ASAN_OPTIONS="detect_leaks=0:abort_on_error=1:max_allocation_size_mb=256:allocator_may_return_null=0:detect_stack_use_after_return=0:handle_abort=0:malloc_context_size=8",
    UBSAN_OPTIONS="print_stacktrace=1:halt_on_error=1:abort_on_error=1",
    TSAN_OPTIONS="halt_on_error=1:abort_on_error=1:second_deadlock_stack=1",
)


def run_env(extra=None):
    e = dict(os.environ)
    e.update(ASAN_ENV)
    e["VF_TOOLS_DIR"] = os.path.join(BUILD, "bin")
    if extra:
        for k, v in extra.items():
            if k in ("ASAN_OPTIONS",) and k in e:
                e[k] = e[k] + ":" + v
            else:
                e[k] = v
    return e


class Worker:
    def __init__(self, job, idx, cmd, prefix, env):
        self.job, self.idx, self.cmd, self.prefix, self.env = job, idx, cmd, prefix, env
        self.proc = None
        self.out = ""
        self.rc = None
        self.timed_out = False


def failure_signature(msg, output):
    m = re.search(r"sig=(\S+)", msg or "")
    if m:
        return m.group(1)
    m = re.search(r"SUMMARY: (\w+Sanitizer): (\S+)(?: [^\n]*? in (\S+))?", output or "")
    if m:
        return "crash.%s.%s.%s" % (m.group(1), m.group(2), (m.group(3) or "?"))
    m = re.search(r"(runtime error: [^\n]{0,80})", output or "")
    if m:
        return "crash.ubsan." + re.sub(r"[^A-Za-z0-9]+", "_", m.group(1))[:60]
    if "std::terminate" in (output or "") or "terminate called" in (output or ""):
        return "crash.terminate"
    if "Assertion" in (output or ""):
        return "crash.assertion"
    return "crash.unknown"


def job_args(P, j):
    """extra command line of a harness job: its own arguments plus the per-case time limit"""
    return list(j.get("args", [])) + ["--case-timeout", str(j.get("case_timeout", P.get("case_timeout", 600)))]


def run_check(pid, tier, builder):
    P = PROPS[pid]
    seed = int(os.environ.get("VERIF_SEED", "1"))
    known, _fixed = load_known()
    known_here = [k for k in known if k["prop"] == pid]
    t0 = time.time()
    rundir = os.path.join(BUILD, "run", "%s-%d" % (pid, os.getpid()))
    shutil.rmtree(rundir, ignore_errors=True)
    os.makedirs(rundir)
    viol_dir = os.path.join(VERIF, "build", "violations")
    os.makedirs(viol_dir, exist_ok=True)

    jobs = [j for j in P["jobs"] if tier in j.get("tiers", ("quick", "thorough"))]
    # regression tier: saved cases (choice files; the header names the harness property and the generator size)
    corpus = []
    corpus_dir = os.path.join(VERIF, "corpus", pid)
    if os.path.isdir(corpus_dir):
        for fn in sorted(os.listdir(corpus_dir)):
            if not fn.endswith(".choices"):
                continue
            with open(os.path.join(corpus_dir, fn), errors="replace") as fh:
                m = re.search(r"prop=(\S+)", fh.readline())
            cj = next((j for j in P["jobs"] if m and j.get("prop") == m.group(1) and "harness" in j), None)
            if cj:
                corpus.append((os.path.join(corpus_dir, fn), cj))
    harnesses = sorted(set(j["harness"] for j in jobs if "harness" in j) | set(P.get("extra_harnesses", [])) | set(cj["harness"] for _, cj in corpus))
    builder.build(harnesses)

    # special (python-side) job kinds are delegated
    workers = []
    agg = dict(evaluations=0, hashes=set(), nontrivial_sum=0, classes={}, counters={}, samples=[], notes=[],
               inconclusive=[], unreproduced=[], jobs=[], exhaustive_parts=[])
    failures = []  # (job, worker, kind, replay_path, msg, output)
    known_sigs = ",".join(k["sig"] for k in known_here)

    for j in jobs:
        kind = j.get("kind", "rc")
        if kind == "py":
            continue
        exe = builder.exe(j["harness"])
        cases = j["cases"][0 if tier == "quick" else 1] if isinstance(j.get("cases"), (list, tuple)) else j.get("cases", 0)
        size = j["size"][0 if tier == "quick" else 1] if isinstance(j.get("size"), (list, tuple)) else j.get("size", 30)
        nw = j.get("workers", JOBS)
        if kind == "py":
            continue
        for w in range(nw):
            prefix = os.path.join(rundir, "%s.w%d" % (j["prop"], w))
            if kind == "enum":
                cmd = [exe, "--prop", j["prop"], "--enumerate", "--shard", str(w), "--nshards", str(nw), "--size", str(size), "--out", prefix]
            else:
                per = max(1, cases // nw)
                cmd = [exe, "--prop", j["prop"], "--cases", str(per), "--seed", str(splitmix(seed, pid, j["prop"], w)), "--size", str(size), "--out", prefix]
            if known_sigs:
                cmd += ["--known", known_sigs]
            cmd += job_args(P, j)
            workers.append(Worker(j, w, cmd, prefix, run_env(j.get("env"))))

    # regression tier first: every saved case must pass
    if corpus:
        from concurrent.futures import ThreadPoolExecutor

        def replay_saved(item):
            k, (path, cj) = item
            cmd = [builder.exe(cj["harness"]), "--prop", cj["prop"], "--replay", path, "--out", os.path.join(rundir, "corpus%d" % k)]
            if known_sigs:
                cmd += ["--known", known_sigs]
            cmd += job_args(P, cj)
            try:
                r = subprocess.run(cmd, stdout=subprocess.PIPE, stderr=subprocess.STDOUT, text=True, errors="replace", env=run_env(cj.get("env")), cwd=rundir, timeout=900)
                return path, cj, r.returncode, r.stdout
            except subprocess.TimeoutExpired:
                return path, cj, None, ""
        with ThreadPoolExecutor(max_workers=JOBS) as ex:
            for path, cj, rc, out in ex.map(replay_saved, enumerate(corpus)):
                if rc is None:
                    agg["inconclusive"].append("saved case %s did not finish in 900 s" % os.path.basename(path))
                    continue
                agg["counters"]["regression_cases_replayed"] = agg["counters"].get("regression_cases_replayed", 0) + 1
                if rc != 0:
                    pw = Worker(cj, -1, [], os.path.join(rundir, "corpus"), run_env(cj.get("env")))
                    pw.rc = rc
                    m = re.search(r"REPLAY-FAIL (.*)", out)
                    failures.append((pw, "saved-case", path, m.group(1) if m else "", out))

    # run all workers, at most JOBS at a time
    timeout_s = P.get("timeout", {}).get(tier, 3600)
    pending = list(workers)
    running = []
    deadline = time.time() + timeout_s
    stall_s = P.get("stall", 900)
    last_stall_check = time.time()
    failing_seen = False
    while pending or running:
        while pending and len(running) < JOBS:
            w = pending.pop(0)
            w.logf = open(w.prefix + ".log", "w")
            w.proc = subprocess.Popen(w.cmd, stdout=w.logf, stderr=subprocess.STDOUT, env=w.env, cwd=rundir)
            w.started = time.time()
            running.append(w)
        time.sleep(0.05)
        for w in list(running):
            rc = w.proc.poll()
            if rc is not None:
                w.rc = rc
                running.remove(w)
                w.logf.close()
        now = time.time()
        if now - last_stall_check > 5:
            last_stall_check = now
            for w in list(running):
                # a worker that has not started a new case for a long time is stuck (seen: sanitizer-runtime deadlock while reporting)
                try:
                    last = max(os.path.getmtime(w.prefix + ".hb"), w.started)
                except OSError:
                    last = w.started
                if now - last > stall_s:
                    w.proc.kill()
                    w.proc.wait()
                    w.stalled = True
                    w.rc = -998
                    running.remove(w)
                    w.logf.close()
            if not failing_seen and any(getattr(x, "rc", None) not in (None, 0, -9, -998, -999) for x in workers):
                # some worker already failed: the verdict no longer depends on the others finishing their budget
                failing_seen = True
                deadline = min(deadline, now + 240)
        if time.time() > deadline:
            for w in running:
                w.proc.kill()
                w.proc.wait()
                w.timed_out = True
                w.rc = -999
                w.logf.close()
            for w in pending:
                w.timed_out = True
                w.rc = -999
            running, pending = [], []

    for w in workers:
        try:
            w.out = open(w.prefix + ".log", errors="replace").read()
        except OSError:
            w.out = ""
        stats = None
        try:
            stats = json.load(open(w.prefix + ".stats.json"))
        except Exception:
            pass
        if stats:
            agg["evaluations"] += stats["evaluations"]
            agg["nontrivial_sum"] += stats["nontrivial"]
            agg["hashes"].update(stats["hashes"])
            for k, v in stats["classes"].items():
                agg["classes"][k] = agg["classes"].get(k, 0) + v
            for k, v in stats["counters"].items():
                agg["counters"][k] = agg["counters"].get(k, 0) + v
            for s in stats["samples"]:
                if len(agg["samples"]) < 6 and s not in agg["samples"]:
                    agg["samples"].append(s)
            agg["notes"] += [n for n in stats["notes"] if n not in agg["notes"]]
        if w.timed_out:
            agg["inconclusive"].append("%s worker %d: time budget hit" % (w.job["prop"], w.idx))
            continue
        if getattr(w, "stalled", False):
            if re.search(r"Sanitizer: CHECK failed|WARNING: ThreadSanitizer|ERROR: AddressSanitizer|runtime error:", w.out) and os.path.exists(w.prefix + ".current.choices"):
                # the sanitizer had started to report something when the process got stuck: replay the case to find out what
                failures.append((w, "crash", w.prefix + ".current.choices", "", w.out))
            else:
                agg["inconclusive"].append("%s worker %d: no progress for %d s, killed" % (w.job["prop"], w.idx, stall_s))
            continue
        if w.rc == -9:
            # SIGKILL is only sent by the kernel's OOM killer (or an operator): load noise, never a violation
            agg["inconclusive"].append("%s worker %d: killed by SIGKILL (out of memory?)" % (w.job["prop"], w.idx))
            continue
        if w.rc == 0:
            continue
        if w.rc == 1 and os.path.exists(w.prefix + ".fail.choices"):
            failures.append((w, "oracle", w.prefix + ".fail.choices", (stats or {}).get("failmsg", ""), w.out))
        elif os.path.exists(w.prefix + ".current.choices"):
            failures.append((w, "crash", w.prefix + ".current.choices", "", w.out))
        else:
            failures.append((w, "crash-nocase", None, "", w.out))

    # python-side jobs (tools, fuzz campaigns, ...)
    for j in jobs:
        if j.get("kind") == "py":
            import pyjobs
            res = getattr(pyjobs, j["func"])(dict(pid=pid, tier=tier, seed=seed, rundir=rundir, builder=builder, repo=REPO, jobs=JOBS,
                                                  job=j, env=run_env(j.get("env")), known=known_here, viol_dir=viol_dir))
            agg["evaluations"] += res.get("evaluations", 0)
            agg["hashes"].update(res.get("hashes", []))
            for k, v in res.get("classes", {}).items():
                agg["classes"][k] = agg["classes"].get(k, 0) + v
            for k, v in res.get("counters", {}).items():
                agg["counters"][k] = agg["counters"].get(k, 0) + v
            agg["samples"] += res.get("samples", [])[:3]
            agg["inconclusive"] += res.get("inconclusive", [])
            agg["notes"] += res.get("notes", [])
            for f in res.get("failures", []):
                failures.append((None, f["kind"], f["replay"], f["msg"], f.get("output", ""), f))

    # confirm failures: replay 3x in fresh processes
    violations = []
    known_hits = {}
    for f in failures:
        w, kind, path, msg, output = f[0], f[1], f[2], f[3], f[4]
        extra = f[5] if len(f) > 5 else None
        if extra is not None:
            # python-side failures come already confirmed (or not) by their job
            sig = extra.get("sig") or failure_signature(msg, output)
            confirmed = extra.get("confirmed", True)
            final = path
        else:
            if path is None:
                agg["unreproduced"].append("%s worker %d exited %s without a saved case: %s" % (w.job["prop"], w.idx, w.rc, output[-400:]))
                # a harness that dies without a case is a broken harness or an environment problem; report loudly
                sig = failure_signature(msg, output)
                violations.append((sig, None, "worker died without a saved case (rc=%s): %s" % (w.rc, output[-300:])))
                continue
            final = os.path.join(viol_dir, "%s-%s-%s.choices" % (pid, w.job["prop"], hashlib.sha1(open(path, "rb").read()).hexdigest()[:10]))
            shutil.copy(path, final)
            confirmed = True
            sig = None
            rep_out = ""
            for k in range(3):
                try:
                    r = subprocess.run([builder.exe(w.job["harness"]), "--prop", w.job["prop"], "--replay", final, "--out", os.path.join(rundir, "replay%d" % k)] + (["--known", known_sigs] if known_sigs else []) + job_args(P, w.job),
                                       stdout=subprocess.PIPE, stderr=subprocess.STDOUT, text=True, errors="replace", env=w.env, cwd=rundir, timeout=900)
                except subprocess.TimeoutExpired:
                    confirmed = False
                    agg["inconclusive"].append("%s: replay of %s did not finish in 900 s" % (pid, final))
                    break
                rep_out = r.stdout
                if r.returncode == 0:
                    confirmed = False
                    break
                m = re.search(r"REPLAY-FAIL (.*)", r.stdout)
                s = failure_signature(m.group(1) if m else "", r.stdout)
                if sig is None:
                    sig = s
                    if m:
                        msg = m.group(1)
                elif s != sig:
                    confirmed = False
                    break
            output = rep_out or output
        if not confirmed:
            agg["unreproduced"].append("%s: case %s did not reproduce 3x" % (pid, final))
            continue
        kf = [k for k in known_here if k["sig"] == sig]
        if kf:
            known_hits.setdefault(sig, kf[0])
            continue
        detail = msg or ""
        if not detail:
            m = re.search(r"(SUMMARY: [^\n]*|runtime error: [^\n]*)", output or "")
            detail = m.group(1) if m else (output or "")[-300:]
        violations.append((sig, final, detail))

    # known findings that the harness itself recognised and excluded (counted by the harness)
    for k in known_here:
        c = agg["counters"].get("known:" + k["sig"], 0)
        if c:
            known_hits.setdefault(k["sig"], k)

    for sig, k in known_hits.items():
        print("KNOWN-FINDING: property=%s %s" % (pid, k["what"]))

    wall = time.time() - t0
    distinct = len(agg["hashes"])
    ev = dict(
        property_id=pid, tier=tier, seed=seed, level=P.get("level", "exploration"),
        coverage=dict(
            evaluations=agg["evaluations"], distinct_nontrivial=distinct, rule=P["rule"],
            samples=agg["samples"][:6] or ["(no sample recorded)"],
            nontrivial_evaluations=agg["nontrivial_sum"],
            class_histogram=agg["classes"], counters=agg["counters"],
            jobs=[dict(prop=j["prop"] if "prop" in j else j.get("func"), kind=j.get("kind", "rc"), harness=j.get("harness")) for j in jobs],
            exhaustive=bool(P.get("exhaustive_all", False)),
            exhaustive_subspaces=[j["prop"] for j in jobs if j.get("kind") == "enum"],
            inconclusive=agg["inconclusive"], unreproduced=agg["unreproduced"], notes=agg["notes"],
            known_findings_hit=sorted(known_hits.keys()),
            tree_hash=tree_hash(), repo=REPO,
        ),
        assumptions=P.get("assumptions", []),
        wall_s=round(wall, 2),
        violations=len(violations),
    )
    os.makedirs(os.path.join(VERIF, "evidence"), exist_ok=True)
    evp = os.environ.get("VERIF_EVIDENCE_DIR", os.path.join(VERIF, "evidence"))
    os.makedirs(evp, exist_ok=True)
    with open(os.path.join(evp, pid + ".json"), "w") as f:
        json.dump(ev, f, indent=1, sort_keys=True)
        f.write("\n")

    print("[%s %s] evaluations=%d distinct_nontrivial=%d wall=%.1fs violations=%d inconclusive=%d" % (
        pid, tier, agg["evaluations"], distinct, wall, len(violations), len(agg["inconclusive"])))
    if violations:
        seen = set()
        for sig, path, detail in violations:
            if (sig, path) in seen:
                continue
            seen.add((sig, path))
            print("  failure sig=%s: %s" % (sig, (detail or "")[:600]))
            print("VIOLATION property=%s replay=%s" % (pid, path))
        if not os.environ.get("VERIF_KEEP_RUN"):
            shutil.rmtree(rundir, ignore_errors=True)
        return 1
    if not os.environ.get("VERIF_KEEP_RUN"):
        shutil.rmtree(rundir, ignore_errors=True)
    return 0


def replay(pid, path, builder):
    P = PROPS[pid]
    hdr = ""
    try:
        with open(path, errors="replace") as f:
            hdr = f.readline() + f.readline()
    except OSError:
        pass
    m = re.search(r"prop=(\S+)", hdr)
    jobs = [j for j in P["jobs"] if j.get("kind") != "py"]
    job = None
    if m:
        for j in jobs:
            if j["prop"] == m.group(1):
                job = j
    if job is None:
        pyj = [j for j in P["jobs"] if j.get("kind") == "py"]
        if pyj and not m:
            import pyjobs
            builder.build(sorted(set(j["harness"] for j in P["jobs"] if "harness" in j) | set(P.get("extra_harnesses", []))))
            return pyjobs.replay(dict(pid=pid, path=path, builder=builder, repo=REPO, env=run_env(), job=pyj[0]))
        job = jobs[0]
    if "engine=valgrind" in hdr:
        builder.build(["mutread_plain"])
        r = subprocess.run(["valgrind", "-q", "--error-exitcode=97", builder.exe("mutread_plain"), "--prop", job["prop"], "--replay", os.path.abspath(path), "--out", "/tmp/vgreplay-%d" % os.getpid()],
                           env={k: v for k, v in os.environ.items() if not k.endswith("SAN_OPTIONS")})
        if r.returncode != 0:
            print("VIOLATION property=%s replay=%s" % (pid, path))
            return 1
        return 0
    builder.build([job["harness"]])
    rundir = os.path.join(BUILD, "run", "replay-%d" % os.getpid())
    os.makedirs(rundir, exist_ok=True)
    known, _ = load_known()
    ks = ",".join(k["sig"] for k in known if k["prop"] == pid)
    r = subprocess.run([builder.exe(job["harness"]), "--prop", job["prop"], "--replay", os.path.abspath(path), "--out", os.path.join(rundir, "r")] + (["--known", ks] if ks else []) + job_args(P, job),
                       env=run_env(job.get("env")), cwd=rundir)
    shutil.rmtree(rundir, ignore_errors=True)
    if r.returncode != 0:
        print("VIOLATION property=%s replay=%s" % (pid, path))
        return 1
    return 0


def main():
    args = sys.argv[1:]
    if not args or args[0] in ("-h", "--help"):
        print(__doc__)
        return 0
    b = Builder()
    if args[0] == "--list":
        for k in sorted(PROPS):
            print(k, [j.get("prop", j.get("func")) for j in PROPS[k]["jobs"]])
        return 0
    if args[0] == "--setup":
        b.build(sorted(HARNESSES))
        print("setup ok: %d harnesses in %s" % (len(HARNESSES), BUILD))
        return 0
    pid = args[0]
    if pid not in PROPS:
        print("unknown property", pid)
        return 2
    if len(args) >= 3 and args[1] == "--replay":
        return replay(pid, args[2], b)
    tier = os.environ.get("VERIF_TIER") or (args[1] if len(args) > 1 else "quick")
    if tier not in ("quick", "thorough"):
        tier = "quick"
    return run_check(pid, tier, b)


if __name__ == "__main__":
    sys.exit(main())
