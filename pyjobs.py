"""Python-side jobs of check.py: libFuzzer campaigns (C03)."""
import hashlib
import os
import re
import shutil
import subprocess
import time


def _run(cmd, env, cwd, timeout):
    try:
        r = subprocess.run(cmd, stdout=subprocess.PIPE, stderr=subprocess.STDOUT, text=True, errors="replace", env=env, cwd=cwd, timeout=timeout)
        return r.returncode, r.stdout
    except subprocess.TimeoutExpired as e:
        out = e.stdout or ""
        if isinstance(out, bytes):
            out = out.decode(errors="replace")
        return -999, out


def fuzz(ctx):
    """libFuzzer campaigns: every target x {empty corpus, generator-made seed corpus}, several seeds in parallel."""
    job, tier, seed, rundir, builder, env = ctx["job"], ctx["tier"], ctx["seed"], ctx["rundir"], ctx["builder"], ctx["env"]
    runs = job["runs"][0 if tier == "quick" else 1]
    max_time = job.get("max_total_time", (0, 0))[0 if tier == "quick" else 1]
    nproc_per = job.get("procs", (2, 4))[0 if tier == "quick" else 1]
    res = dict(evaluations=0, hashes=[], classes={}, counters={}, samples=[], inconclusive=[], notes=[], failures=[])
    env = dict(env)
    env["ASAN_OPTIONS"] = env.get("ASAN_OPTIONS", "") + ":max_allocation_size_mb=64"
    env["VF_SCRATCH"] = rundir
    # generator-made seed corpus
    seeddir = os.path.join(rundir, "fuzz_seeds")
    os.makedirs(seeddir, exist_ok=True)
    e2 = dict(env, VF_SEED_DIR=seeddir)
    if job.get("seed_corpus", True):
        _run([builder.exe("mutread"), "--prop", "c03_seeds", "--cases", "60", "--seed", str(seed), "--size", "20", "--out", os.path.join(rundir, "seedgen")], e2, rundir, 300)
    nseeds = len(os.listdir(seeddir))
    res["counters"]["fuzz_seed_files"] = nseeds
    procs = []
    for target in job["targets"]:
        for corpus_kind in (("empty", "seeded") if job.get("seed_corpus", True) else ("empty",)):
            for k in range(nproc_per):
                cdir = os.path.join(rundir, "corpus_%s_%s_%d" % (target, corpus_kind, k))
                adir = os.path.join(rundir, "art_%s_%s_%d" % (target, corpus_kind, k))
                os.makedirs(cdir, exist_ok=True)
                os.makedirs(adir, exist_ok=True)
                if corpus_kind == "seeded":
                    for f in os.listdir(seeddir):
                        shutil.copy(os.path.join(seeddir, f), cdir)
                s = (seed * 7919 + k * 104729 + (1 if corpus_kind == "seeded" else 0) + len(target)) % 2000000000 + 1
                cmd = [builder.exe(target), "-seed=%d" % s, "-max_len=%d" % job.get("max_len", 16384), "-malloc_limit_mb=64", "-rss_limit_mb=4096",
                       "-timeout=25", "-artifact_prefix=" + adir + "/", "-print_final_stats=1", "-verbosity=0"]
                if max_time:
                    cmd.append("-max_total_time=%d" % max_time)
                else:
                    cmd.append("-runs=%d" % runs)
                cmd.append(cdir)
                logp = os.path.join(rundir, "fuzz_%s_%s_%d.log" % (target, corpus_kind, k))
                lf = open(logp, "w")
                p = subprocess.Popen(cmd, stdout=lf, stderr=subprocess.STDOUT, env=env, cwd=rundir)
                procs.append(dict(p=p, target=target, kind=corpus_kind, cdir=cdir, adir=adir, log=logp, lf=lf))
    deadline = time.time() + (max_time + 600 if max_time else 3600)
    for pr in procs:
        try:
            pr["p"].wait(timeout=max(1, deadline - time.time()))
        except subprocess.TimeoutExpired:
            pr["p"].kill()
            pr["p"].wait()
            res["inconclusive"].append("fuzz %s/%s: time budget hit" % (pr["target"], pr["kind"]))
        pr["lf"].close()
    seen_corpus = set()
    for pr in procs:
        out = open(pr["log"], errors="replace").read()
        m = re.search(r"stat::number_of_executed_units:\s+(\d+)", out)
        n = int(m.group(1)) if m else 0
        res["evaluations"] += n
        key = "fuzz_execs:%s:%s" % (pr["target"], pr["kind"])
        res["counters"][key] = res["counters"].get(key, 0) + n
        for f in os.listdir(pr["cdir"]):
            seen_corpus.add(pr["target"] + ":" + f)
        for f in sorted(os.listdir(pr["adir"])):
            path = os.path.join(pr["adir"], f)
            if f.startswith(("crash-", "leak-")):
                final = os.path.join(ctx["viol_dir"], "%s-%s-%s" % (ctx["pid"], pr["target"], f))
                shutil.copy(path, final)
                # confirm: three replays in fresh processes
                confirmed, sig, last = True, None, ""
                for _ in range(3):
                    rc, o = _run([builder.exe(pr["target"]), final], env, rundir, 120)
                    last = o
                    if rc == 0:
                        confirmed = False
                        break
                    mm = re.search(r"SUMMARY: (\w+Sanitizer): (\S+)(?: [^\n]*? in (\S+))?", o)
                    s = "crash.%s.%s.%s" % (mm.group(1), mm.group(2), mm.group(3) or "?") if mm else "crash.fuzz"
                    sig = sig or s
                res["failures"].append(dict(kind="fuzz", replay=final, msg="libFuzzer artifact %s of %s (%s corpus): %s" % (f, pr["target"], pr["kind"], (re.search(r"SUMMARY: [^\n]*", last) or re.search(r"runtime error: [^\n]*", last) or [""])[0] if True else ""),
                                            output=last[-3000:], sig=sig, confirmed=confirmed))
            elif f.startswith("timeout-") and os.path.getsize(path) <= 4096:
                # hang rule: a small input that exceeds 20 s (>= 10^4 x the normal cost) three times in isolation is a hang
                hangs = 0
                for _ in range(3):
                    rc, o = _run([builder.exe(pr["target"]), "-timeout=20", path], env, rundir, 120)
                    if rc == 70 or rc == -999:
                        hangs += 1
                if hangs == 3:
                    final = os.path.join(ctx["viol_dir"], "%s-%s-%s" % (ctx["pid"], pr["target"], f))
                    shutil.copy(path, final)
                    res["failures"].append(dict(kind="fuzz-hang", replay=final, msg="input of %d bytes does not terminate within 20 s (3 of 3 isolated runs) in %s" % (os.path.getsize(path), pr["target"]),
                                                output="", sig="hang." + pr["target"], confirmed=True))
                else:
                    res["inconclusive"].append("fuzz %s/%s: %s did not reproduce as a hang (%d/3)" % (pr["target"], pr["kind"], f, hangs))
            elif f.startswith(("timeout-", "oom-", "slow-unit-")):
                res["inconclusive"].append("fuzz %s/%s: %s (load noise unless it reproduces as a hang)" % (pr["target"], pr["kind"], f))
    res["hashes"] = [hashlib.sha1(x.encode()).hexdigest()[:16] for x in seen_corpus]
    res["classes"]["fuzz_corpus_entries"] = len(seen_corpus)
    res["samples"].append("libFuzzer: %d executions over targets %s, final corpora hold %d coverage-increasing inputs" % (res["evaluations"], ",".join(job["targets"]), len(seen_corpus)))
    return res


def replay(ctx):
    """replay of a raw fuzz input: the target is part of the file name (<pid>-<target>-crash-...)."""
    path, builder, env = ctx["path"], ctx["builder"], ctx["env"]
    base = os.path.basename(path)
    target = None
    for t in ("fuzz_reader", "fuzz_decoder", "fuzz_rewrite"):
        if t in base:
            target = t
    if target is None:
        target = "fuzz_reader"
    env = dict(env)
    env["ASAN_OPTIONS"] = env.get("ASAN_OPTIONS", "") + ":max_allocation_size_mb=64"
    r = subprocess.run([builder.exe(target), "-timeout=20", os.path.abspath(path)], env=env)
    if r.returncode != 0:
        print("VIOLATION property=%s replay=%s" % (ctx["pid"], path))
        return 1
    return 0


def valgrind_slice(ctx):
    """C03 thorough: replays generated cases through an uninstrumented build under valgrind memcheck, which makes
    uninitialised reads visible (MemorySanitizer is unusable here: no instrumented libstdc++)."""
    from concurrent.futures import ThreadPoolExecutor
    job, tier, seed, rundir, builder, env = ctx["job"], ctx["tier"], ctx["seed"], ctx["rundir"], ctx["builder"], ctx["env"]
    res = dict(evaluations=0, hashes=[], classes={}, counters={}, samples=[], inconclusive=[], notes=[], failures=[])
    files = []
    for prop, n in job["props"]:
        d = os.path.join(rundir, "vg_cases_" + prop)
        os.makedirs(d, exist_ok=True)
        _run([builder.exe("mutread"), "--prop", prop, "--cases", str(n), "--seed", str(seed + 17), "--size", "30", "--out", os.path.join(rundir, "vg_gen_" + prop), "--dump-cases", d], env, rundir, 1800)
        files += [(prop, os.path.join(d, f)) for f in sorted(os.listdir(d))]
    plain_env = {k: v for k, v in env.items() if not k.endswith("SAN_OPTIONS")}

    def one(item):
        prop, path = item
        cmd = ["valgrind", "-q", "--error-exitcode=97", "--track-origins=no", builder.exe("mutread_plain"), "--prop", prop, "--replay", path, "--out", path + ".vg"]
        rc, out = _run(cmd, plain_env, rundir, 600)
        return prop, path, rc, out

    with ThreadPoolExecutor(max_workers=ctx["jobs"]) as ex:
        results = list(ex.map(one, files))
    for prop, path, rc, out in results:
        res["evaluations"] += 1
        res["hashes"].append(hashlib.sha1(open(path, "rb").read()).hexdigest()[:16])
        if rc == -999:
            res["inconclusive"].append("valgrind replay timed out: " + os.path.basename(path))
        elif rc == 97:
            m = re.search(r"==\d+== ([A-Z][^\n]*)\n(?:==\d+==\s+(?:at|by) [^\n]*\n)*?==\d+==\s+(?:at|by) 0x[0-9A-F]+: (CDNS::[^\n(]*)", out)
            what = (m.group(1).strip() if m else "valgrind error")
            where = (m.group(2).strip() if m else "?")
            final = os.path.join(ctx["viol_dir"], "%s-valgrind-%s" % (ctx["pid"], os.path.basename(path)))
            with open(final, "w") as f:
                f.write(open(path).read().replace("\n", " engine=valgrind\n", 1))
            res["failures"].append(dict(kind="valgrind", replay=final, msg="valgrind memcheck: %s in %s (%s)" % (what, where, prop), output=out[-3000:],
                                        sig="valgrind." + re.sub(r"[^A-Za-z]+", "_", what)[:40] + "." + re.sub(r"[^A-Za-z0-9:]+", "_", where)[:60], confirmed=True))
        elif rc not in (0, 1):
            res["inconclusive"].append("valgrind replay of %s exited %s" % (os.path.basename(path), rc))
    res["counters"]["valgrind_replays"] = len(results)
    res["samples"].append("valgrind memcheck replay of %d generated cases through the uninstrumented build" % len(results))
    return res
