#!/usr/bin/env python3
"""mk_mutant.py NAME "C01 C02" "what" FILE OLD NEW [FILE OLD NEW ...]  -- writes selftest/mutants/NAME.diff (paths relative to /repo)"""
import os, subprocess, sys, tempfile, shutil
name, props, what = sys.argv[1:4]
rest = sys.argv[4:]
tmp = tempfile.mkdtemp(prefix="vfmk")
try:
    subprocess.run(["git", "-C", "/repo", "worktree", "add", "--detach", "-f", tmp + "/w", "HEAD"], check=True, stdout=subprocess.DEVNULL, stderr=subprocess.DEVNULL)
    for i in range(0, len(rest), 3):
        f, old, new = rest[i:i+3]
        p = os.path.join(tmp, "w", f)
        s = open(p).read()
        old = old.encode().decode("unicode_escape"); new = new.encode().decode("unicode_escape")
        nth = 0
        import re as _re
        m = _re.search(r"@@(\d+)$", old)
        if m:
            nth = int(m.group(1)); old = old[:m.start()]
        if nth == 0 and s.count(old) != 1:
            print("ERROR: %r occurs %d times in %s" % (old, s.count(old), f)); sys.exit(1)
        if nth:
            pos = -1
            for _ in range(nth):
                pos = s.find(old, pos + 1)
                if pos < 0:
                    print("ERROR: occurrence %d of %r not found in %s" % (nth, old, f)); sys.exit(1)
            s = s[:pos] + new + s[pos + len(old):]
        else:
            s = s.replace(old, new)
        open(p, "w").write(s)
    d = subprocess.run(["git", "-C", tmp + "/w", "diff"], stdout=subprocess.PIPE, text=True).stdout
    out = os.path.join(os.path.dirname(os.path.abspath(__file__)), os.environ.get("MUT_DIR", "mutants"), name + ".diff")
    open(out, "w").write("# props: %s\n# what: %s\n%s" % (props, what, d))
    print("wrote", out, len(d.splitlines()), "lines")
finally:
    subprocess.run(["git", "-C", "/repo", "worktree", "remove", "--force", tmp + "/w"], stdout=subprocess.DEVNULL, stderr=subprocess.DEVNULL)
    shutil.rmtree(tmp, ignore_errors=True)
