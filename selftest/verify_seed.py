#!/usr/bin/env python3
"""Independent confirmation of a seeded change delivered by a sub-agent.

  python3 selftest/verify_seed.py <PROPERTY_ID> <NAME> <dir with patch.diff demo.cpp README.md> "<what it needs to manifest>"

In a fresh scratch worktree of /repo HEAD (outside /repo and /verif, removed afterwards):
  1. the demonstration is compiled against the unchanged sources and must exit 0;
  2. the patch must apply, the library must build and the existing test suite (98 gtest cases) must pass;
  3. the demonstration compiled against the changed sources must exit non-zero.
Only then the change is kept as /verif/seeded/<NAME>/ (patch.diff, demo.cpp, README.md, meta.json).
"""
import json
import os
import shutil
import subprocess
import sys
import time

VERIF = os.path.dirname(os.path.dirname(os.path.abspath(__file__)))


def sh(cmd, cwd=None, timeout=1800):
    r = subprocess.run(cmd, shell=True, cwd=cwd, stdout=subprocess.PIPE, stderr=subprocess.STDOUT, text=True, errors="replace", timeout=timeout)
    return r.returncode, r.stdout


def main():
    pid, name, src, needs = sys.argv[1:5]
    rest = sys.argv[5:]
    noarg = "--no-arg" in rest
    tools = "--tools" in rest
    extra = rest[rest.index("--flags") + 1] if "--flags" in rest else ""
    runtpl = rest[rest.index("--run") + 1] if "--run" in rest else None
    # backward compatible positional form: --no-arg "<flags>"
    if noarg and "--flags" not in rest and len(rest) > rest.index("--no-arg") + 1 and not rest[rest.index("--no-arg") + 1].startswith("--"):
        extra = rest[rest.index("--no-arg") + 1]
    tree = "/tmp/vs-%s-%d" % (name, os.getpid())
    ran = []
    ok = False
    try:
        sh("git -C /repo worktree add --detach -f %s HEAD" % tree)
        os.makedirs(tree + "/seedwork", exist_ok=True)
        shutil.copy(os.path.join(src, "demo.cpp"), tree + "/seedwork/demo.cpp")
        build_demo = "g++ -std=gnu++17 -O1 -msse4 -I%s/src seedwork/demo.cpp src/*.cpp -lz -llzma -lpthread %s -o seedwork/demo" % (tree, extra)
        run_demo = "cd seedwork && mkdir -p work && ./demo %s" % ("" if noarg else tree + "/seedwork/work")
        if runtpl:
            run_demo = "cd seedwork && mkdir -p work && " + runtpl.replace("{tree}", tree)
        build_tools = "cmake -S . -B _build -G Ninja -DBUILD_TESTS=OFF -DBUILD_DOC=OFF >/dev/null 2>&1 && cmake --build _build >/dev/null 2>&1"
        if tools:
            sh(build_tools, tree)
        rc, out = sh(build_demo, tree)
        if rc != 0:
            print("demo does not compile on unchanged sources:\n" + out[-2000:]); return 1
        rc0, out0 = sh(run_demo, tree)
        ran.append(dict(cmd="demo on unchanged sources", rc=rc0, tail=out0[-400:]))
        print("demo on unchanged sources: exit %d" % rc0)
        rc, out = sh("git apply --whitespace=nowarn %s" % os.path.join(src, "patch.diff"), tree)
        if rc != 0:
            print("patch does not apply:\n" + out); return 1
        rc, out = sh("cmake -S . -B _b -G Ninja -DBUILD_TESTS=ON -DBUILD_DOC=OFF >/dev/null && cmake --build _b 2>&1 | tail -2 && ./_b/tests/tests | tail -3", tree)
        passed = "[  PASSED  ] 98 tests" in out
        ran.append(dict(cmd="test suite with the change", rc=rc, tail=out[-300:]))
        print("test suite with the change: %s" % ("98 passed" if passed else "NOT all passed\n" + out[-1500:]))
        if tools:
            sh(build_tools, tree)
        rc, out = sh(build_demo, tree)
        if rc != 0:
            print("demo does not compile with the change:\n" + out[-2000:]); return 1
        rc1, out1 = sh(run_demo, tree)
        ran.append(dict(cmd="demo with the change", rc=rc1, tail=out1[-600:]))
        print("demo with the change: exit %d\n%s" % (rc1, out1[-500:]))
        ok = rc0 == 0 and passed and rc1 != 0
        if ok:
            dst = os.path.join(VERIF, "seeded", name)
            os.makedirs(dst, exist_ok=True)
            for f in ("patch.diff", "demo.cpp", "README.md"):
                if os.path.exists(os.path.join(src, f)):
                    shutil.copy(os.path.join(src, f), os.path.join(dst, f))
            json.dump(dict(property=pid, needs=needs, source="independent sub-agent (saw only the property text and a scratch worktree)",
                           confirmed=time.strftime("%Y-%m-%d"), repo_head=sh("git -C /repo rev-parse --short HEAD")[1].strip(), ran=ran,
                           demo_build="g++ -std=gnu++17 -O1 -msse4 -I<tree>/src demo.cpp <tree>/src/*.cpp -lz -llzma -lpthread"),
                      open(os.path.join(dst, "meta.json"), "w"), indent=1)
            print("KEPT as", dst)
        else:
            print("NOT KEPT (unchanged rc=%d, tests passed=%s, changed rc=%d)" % (rc0, passed, rc1))
    finally:
        sh("git -C /repo worktree remove --force %s" % tree)
        shutil.rmtree(tree, ignore_errors=True)
        sh("git -C /repo worktree prune")
    return 0 if ok else 1


if __name__ == "__main__":
    sys.exit(main())
