#!/usr/bin/env python3
"""Rewrites the generated part of DESIGN.md (between the MATRIX markers) from selftest/results*.json."""
import json, os, subprocess, sys
d = os.path.dirname(os.path.abspath(__file__))
design = os.path.join(d, "..", "DESIGN.md")
matrix = subprocess.run([sys.executable, os.path.join(d, "report.py")], stdout=subprocess.PIPE, text=True, check=True).stdout
r = json.load(open(os.path.join(d, "results.json")))
n = sum(1 for v in r.values() if "results" in v)
caught = sum(1 for v in r.values() if "results" in v and any(x["caught"] for x in v["results"].values()))
missed = sorted(k for k, v in r.items() if "results" in v and not any(x["caught"] for x in v["results"].values()))
tests = matrix.count("| pass |")
text = "%d changes (own mutants and sub-agent changes), %d caught by at least one listed property's quick check, %d confirmed against the existing test suite (`pass`; `n/c` = not run for that entry)." % (n, caught, tests)
if missed:
    text += " Not caught: " + ", ".join(missed) + "."
rev = subprocess.run([sys.executable, os.path.join(d, "report.py"), "results_reverts.json"], stdout=subprocess.PIPE, text=True, check=True).stdout
body = ("<!-- BEGIN MATRIX -->\n" + text + "\n\n" + matrix +
        "\nEvery repaired defect of 11.3 brought back (`selftest/reverts/`: the fix commit reverted, or re-introduced by hand where a later fix rewrote the code); "
        "the failing case found is kept as `corpus/<id>/<name>.choices`:\n\n" + rev + "<!-- END MATRIX -->")
s = open(design).read()
a, b = s.index("<!-- BEGIN MATRIX -->"), s.index("<!-- END MATRIX -->") + len("<!-- END MATRIX -->")
open(design, "w").write(s[:a] + body + s[b:])
print(text)
