#!/usr/bin/env python3
"""Sensitivity self-test: run checks against scratch copies of /repo carrying one breaking change each.

  python3 selftest/mutants.py [--tier quick] [--only NAME_SUBSTR] [--props C01,C02] [--dirs selftest/mutants,seeded]

A mutant is a unified diff (git apply) with leading comment lines:
  # props: C06 C10          properties expected to catch it
  # what: <description>
Seeded changes from sub-agents live in /verif/seeded/<id>/patch.diff with meta.json {"property": ...}.
The scratch tree lives under /tmp/vf-mut-<pid>/ and is removed afterwards, together with its build output.
Results: selftest/results.json (which checks catch which change).
"""
import json
import os
import re
import shutil
import subprocess
import sys
import time

VERIF = os.path.dirname(os.path.dirname(os.path.abspath(__file__)))


def load_mutants(dirs):
    out = []
    for d in dirs:
        d = os.path.join(VERIF, d)
        if not os.path.isdir(d):
            continue
        for fn in sorted(os.listdir(d)):
            p = os.path.join(d, fn)
            if fn.endswith(".diff"):
                props, what = [], ""
                for line in open(p):
                    if line.startswith("# props:"):
                        props = line.split(":", 1)[1].split()
                    elif line.startswith("# what:"):
                        what = line.split(":", 1)[1].strip()
                out.append(dict(name=fn[:-5], patch=p, props=props, what=what))
            elif os.path.isdir(p) and os.path.exists(os.path.join(p, "patch.diff")):
                meta = {}
                try:
                    meta = json.load(open(os.path.join(p, "meta.json")))
                except Exception:
                    pass
                props = meta.get("property", "")
                props = props.split() if isinstance(props, str) else props
                out.append(dict(name="seeded-" + fn, patch=os.path.join(p, "patch.diff"), props=props, what=meta.get("needs", "")))
    return out


def main():
    args = sys.argv[1:]
    tier = "quick"
    only = None
    props_filter = None
    dirs = ["selftest/mutants", "seeded"]
    seed = os.environ.get("VERIF_SEED", "1")
    check_tests = False
    skip_done = False
    expect_pass = False
    tests_only = False
    save_corpus = False
    primary_only = False
    respath_override = None
    i = 0
    while i < len(args):
        if args[i] == "--tier":
            tier = args[i + 1]; i += 2
        elif args[i] == "--only":
            only = args[i + 1]; i += 2
        elif args[i] == "--props":
            props_filter = args[i + 1].split(","); i += 2
        elif args[i] == "--dirs":
            dirs = args[i + 1].split(","); i += 2
        elif args[i] == "--check-tests":
            check_tests = True; i += 1
        elif args[i] == "--skip-done":
            skip_done = True; i += 1
        elif args[i] == "--tests-only":
            tests_only = True; check_tests = True; i += 1
        elif args[i] == "--expect-pass":
            expect_pass = True; i += 1
        elif args[i] == "--save-corpus":
            save_corpus = True; i += 1
        elif args[i] == "--primary-only":
            primary_only = True; i += 1
        elif args[i] == "--results":
            respath_override = args[i + 1]; i += 2
        else:
            i += 1
    muts = load_mutants(dirs)
    if only:
        muts = [m for m in muts if only in m["name"]]
    base = "/tmp/vf-mut-%d" % os.getpid()
    results = {}
    respath = os.path.join(VERIF, "selftest", respath_override or "results.json")
    if os.path.exists(respath):
        try:
            results = json.load(open(respath))
        except Exception:
            results = {}
    for m in muts:
        props = [p for p in m["props"] if not props_filter or p in props_filter]
        if primary_only:
            props = props[:1]
        if tests_only and isinstance(results.get(m["name"]), dict) and results[m["name"]].get("tests_pass") is not None:
            continue
        if skip_done and not tests_only:
            done = results.get(m["name"], {}).get("results", {}) if isinstance(results.get(m["name"]), dict) else {}
            props = [p for p in props if p not in done]
        if not props:
            continue
        tree = base + "-" + re.sub(r"[^A-Za-z0-9]+", "_", m["name"])
        shutil.rmtree(tree, ignore_errors=True)
        subprocess.run(["git", "-C", "/repo", "worktree", "add", "--detach", "-f", tree, "HEAD"], stdout=subprocess.DEVNULL, stderr=subprocess.DEVNULL, check=True)
        try:
            r = subprocess.run(["git", "-C", tree, "apply", "--whitespace=nowarn", m["patch"]], stdout=subprocess.PIPE, stderr=subprocess.STDOUT, text=True)
            if r.returncode != 0:
                print("%-40s PATCH DOES NOT APPLY: %s" % (m["name"], r.stdout.strip()[:200]))
                results[m["name"]] = dict(error="patch does not apply")
                continue
            tests_pass = None
            if check_tests:
                r = subprocess.run("cmake -S . -B _b -G Ninja -DBUILD_TESTS=ON -DBUILD_DOC=OFF >/dev/null 2>&1 && cmake --build _b >/dev/null 2>&1 && ./_b/tests/tests | tail -2",
                                   shell=True, cwd=tree, stdout=subprocess.PIPE, stderr=subprocess.STDOUT, text=True)
                tests_pass = "[  PASSED  ] 98 tests" in r.stdout
                shutil.rmtree(os.path.join(tree, "_b"), ignore_errors=True)
                print("%-40s existing test suite with the change: %s" % (m["name"], "98/98 pass" if tests_pass else "FAILS (not a valid mutant): " + r.stdout[-200:]), flush=True)
            env = dict(os.environ, VERIF_REPO=tree, VERIF_EVIDENCE_DIR=os.path.join(tree, "_evidence"), VERIF_SEED=seed)
            res = {}
            for pid in ([] if tests_only else props):
                t0 = time.time()
                r = subprocess.run([sys.executable, os.path.join(VERIF, "check.py"), pid, tier], stdout=subprocess.PIPE, stderr=subprocess.STDOUT, text=True, env=env, cwd=VERIF)
                caught = r.returncode == 1 and "VIOLATION property=%s" % pid in r.stdout
                detail = ""
                mm = re.search(r"failure sig=(\S+)", r.stdout)
                if mm:
                    detail = mm.group(1)
                if r.returncode not in (0, 1):
                    detail = "rc=%d %s" % (r.returncode, r.stdout[-300:])
                res[pid] = dict(caught=caught, sig=detail, wall=round(time.time() - t0, 1))
                if save_corpus and caught:
                    # keep the failing case as a regression case of that property (it passes on the unchanged tree)
                    vm = re.search(r"VIOLATION property=%s replay=(\S+\.choices)" % pid, r.stdout)
                    if vm and os.path.exists(vm.group(1)):
                        os.makedirs(os.path.join(VERIF, "corpus", pid), exist_ok=True)
                        shutil.copy(vm.group(1), os.path.join(VERIF, "corpus", pid, m["name"] + ".choices"))
                        res[pid]["saved_case"] = "corpus/%s/%s.choices" % (pid, m["name"])
                if expect_pass:
                    alarm = r.returncode != 0 or "VIOLATION" in r.stdout
                    res[pid]["alarm"] = alarm
                    print("%-40s %s %-6s %s (%.0fs)" % (m["name"], pid, "FALSE-ALARM" if alarm else "quiet", detail, time.time() - t0), flush=True)
                    if alarm:
                        print(r.stdout[-1200:], flush=True)
                else:
                    print("%-40s %s %-6s %s (%.0fs)" % (m["name"], pid, "CAUGHT" if caught else "MISSED", detail, time.time() - t0), flush=True)
            prev = results.get(m["name"], {}) if isinstance(results.get(m["name"]), dict) else {}
            merged = dict(prev.get("results", {})); merged.update(res)
            results[m["name"]] = dict(what=m["what"], tier=tier, results=merged, tests_pass=tests_pass if tests_pass is not None else prev.get("tests_pass"))
        finally:
            subprocess.run(["git", "-C", "/repo", "worktree", "remove", "--force", tree], stdout=subprocess.DEVNULL, stderr=subprocess.DEVNULL)
            shutil.rmtree(tree, ignore_errors=True)
            import hashlib
            bdir = os.path.join(VERIF, "build", hashlib.sha1(os.path.realpath(tree).encode()).hexdigest()[:10])
            shutil.rmtree(bdir, ignore_errors=True)
        json.dump(results, open(respath, "w"), indent=1, sort_keys=True)
    subprocess.run(["git", "-C", "/repo", "worktree", "prune"], stdout=subprocess.DEVNULL, stderr=subprocess.DEVNULL)


if __name__ == "__main__":
    main()
