#!/usr/bin/env python3
"""Renders selftest/results.json as the markdown catch matrix of DESIGN.md section 11.5."""
import json, os, sys
d = os.path.dirname(os.path.abspath(__file__))
r = json.load(open(os.path.join(d, sys.argv[1] if len(sys.argv) > 1 else "results.json")))
print("| change | what it does | existing tests | caught by (signature) | missed by |")
print("|---|---|---|---|---|")
for k in sorted(r):
    v = r[k]
    if "results" not in v:
        continue
    caught = ["%s (%s)" % (p, x["sig"].rstrip(":")) for p, x in sorted(v["results"].items()) if x["caught"]]
    missed = [p for p, x in sorted(v["results"].items()) if not x["caught"]]
    tp = v.get("tests_pass")
    if tp is None and k.startswith("seeded-"):
        # sub-agent changes: the existing test suite was run by selftest/verify_seed.py, recorded in meta.json
        try:
            meta = json.load(open(os.path.join(d, "..", "seeded", k[len("seeded-"):], "meta.json")))
            tp = any(x["cmd"] == "test suite with the change" and x["rc"] == 0 and "PASSED" in x["tail"] for x in meta["ran"]) or None
        except Exception:
            pass
    print("| %s | %s | %s | %s | %s |" % (k, (v.get("what") or "").replace("|", "/")[:160], "pass" if tp else ("n/c" if tp is None else "FAIL"), ", ".join(caught) or "-", ", ".join(missed) or "-"))
