#!/usr/bin/env python3
"""Seed sweep on the unchanged tree: every registered quick (or thorough) command with several VERIF_SEED values.
A check that exits non-zero or prints VIOLATION here is a false alarm (or a new finding) and must be looked at.
  python3 selftest/sweep.py [--tier quick] [--seeds 2,3,5] [--props C01,C02]"""
import json, os, subprocess, sys, time
VERIF = os.path.dirname(os.path.dirname(os.path.abspath(__file__)))
sys.path.insert(0, VERIF)
from props import PROPS
tier, seeds, props = "quick", [2, 3, 5], sorted(PROPS)
a = sys.argv[1:]
for i in range(0, len(a), 2):
    if a[i] == "--tier": tier = a[i + 1]
    elif a[i] == "--seeds": seeds = [int(x) for x in a[i + 1].split(",")]
    elif a[i] == "--props": props = a[i + 1].split(",")
out = {}
for s in seeds:
    for p in props:
        t0 = time.time()
        env = dict(os.environ, VERIF_SEED=str(s), VERIF_EVIDENCE_DIR="/tmp/vf-sweep-evidence")
        env.pop("VERIF_TIER", None)
        r = subprocess.run([sys.executable, os.path.join(VERIF, "check.py"), p, tier], stdout=subprocess.PIPE, stderr=subprocess.STDOUT, text=True, env=env, cwd=VERIF)
        bad = r.returncode != 0 or "VIOLATION" in r.stdout
        line = [l for l in r.stdout.splitlines() if l.startswith("[" + p)]
        print("seed=%d %s %s %s (%.0fs)" % (s, p, "ALARM rc=%d" % r.returncode if bad else "ok", line[-1] if line else "", time.time() - t0), flush=True)
        if bad:
            print(r.stdout[-1500:], flush=True)
        out["%s/%d" % (p, s)] = dict(rc=r.returncode, alarm=bad, wall=round(time.time() - t0, 1))
        json.dump(out, open(os.path.join(VERIF, "selftest", "sweep_%s.json" % tier), "w"), indent=1, sort_keys=True)
