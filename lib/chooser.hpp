// Choice-sequence abstraction: every generator of the framework draws from a Chooser.
// Back ends: RcChooser (rapidcheck owns the randomness and shrinks the whole sequence),
// ReplayChooser (replays a saved log; the replay file of every VIOLATION), FuzzChooser
// (libFuzzer bytes).  "Smaller is simpler": generators treat the low end of every range
// as absent / stop / first pool entry / zero so that shrinking the sequence shrinks the case.
#pragma once
#include <cstdint>
#include <cstdio>
#include <cstring>
#include <fstream>
#include <initializer_list>
#include <string>
#include <vector>

namespace vf {

struct Chooser {
  virtual ~Chooser() {}
  // inclusive range; implementations must return a value in [lo, hi]
  virtual uint64_t raw(uint64_t lo, uint64_t hi) = 0;

  uint64_t range(uint64_t lo, uint64_t hi) {
    if (hi < lo) hi = lo;
    uint64_t v = (lo == hi) ? lo : raw(lo, hi);
    if (v < lo) v = lo;
    if (v > hi) v = hi;
    if (lo != hi) log.push_back(v);
    return v;
  }
  bool coin() { return range(0, 1) == 1; }
  // true with probability n/d; "false" is the simple outcome (low values), so shrinking goes to false
  bool prob(unsigned n, unsigned d) { return range(0, d - 1) >= (uint64_t)(d - n); }
  template <class T> T pick(std::initializer_list<T> xs) {
    uint64_t i = range(0, xs.size() - 1);
    return *(xs.begin() + i);
  }
  template <class T> const T& pickv(const std::vector<T>& xs) { return xs[range(0, xs.size() - 1)]; }

  // unsigned of a given bit width: mixes boundaries and uniform
  uint64_t uint_bits(unsigned bits) {
    static const uint64_t B[] = {0ull, 1ull, 23ull, 24ull, 255ull, 256ull, 65535ull, 65536ull,
                                 0xFFFFFFFFull, 0x100000000ull, 0x7FFFFFFFFFFFFFFFull,
                                 0x8000000000000000ull, 0xFFFFFFFFFFFFFFFFull};
    uint64_t maxv = bits >= 64 ? ~0ull : ((1ull << bits) - 1);
    uint64_t mode = range(0, 3);
    if (mode == 0) return range(0, maxv < 30 ? maxv : 30);          // small
    if (mode == 1) {                                                 // boundary (clipped), +-1
      uint64_t b = B[range(0, 12)];
      if (b > maxv) b = maxv;
      uint64_t d = range(0, 2);
      if (d == 1 && b > 0) b -= 1;
      if (d == 2 && b < maxv) b += 1;
      return b;
    }
    if (mode == 2) return maxv - range(0, maxv < 3 ? maxv : 3);      // near top
    return range(0, maxv);                                           // uniform
  }
  int64_t int_bits(unsigned bits) {  // signed two's complement value of given width
    uint64_t mode = range(0, 3);
    int64_t minv = bits >= 64 ? INT64_MIN : -(int64_t)(1ull << (bits - 1));
    int64_t maxv = bits >= 64 ? INT64_MAX : (int64_t)((1ull << (bits - 1)) - 1);
    if (mode == 0) return (int64_t)range(0, 30) - 5;
    if (mode == 1) {
      static const int64_t B[] = {0, -1, -24, -25, -256, -257, -65536, -65537, 23, 24, 255, 256,
                                  65535, 65536, -4294967296ll, -4294967297ll, 4294967295ll, 4294967296ll};
      int64_t b = B[range(0, 17)];
      if (b < minv) b = minv;
      if (b > maxv) b = maxv;
      return b;
    }
    if (mode == 2) return coin() ? minv + (int64_t)range(0, 2) : maxv - (int64_t)range(0, 2);
    uint64_t u = range(0, bits >= 64 ? ~0ull : ((1ull << bits) - 1));
    if (bits < 64) {
      if (u >> (bits - 1)) u |= ~((1ull << bits) - 1);
    }
    return (int64_t)u;
  }
  // byte string with interesting lengths; content arbitrary
  std::string bytes(size_t maxlen) {
    static const size_t L[] = {0, 1, 2, 4, 15, 16, 17, 23, 24, 31, 32, 255, 256};
    size_t len;
    uint64_t mode = range(0, 2);
    if (mode == 0) len = range(0, maxlen < 8 ? maxlen : 8);
    else if (mode == 1) { len = L[range(0, 12)]; if (len > maxlen) len = maxlen; }
    else len = range(0, maxlen);
    return bytes_exact(len);
  }
  std::string bytes_exact(size_t len) {
    std::string s;
    s.reserve(len);
    uint64_t cls = range(0, 3);
    if (len > 64) {  // long strings: cheap content, one choice for the pattern
      uint64_t pat = range(0, 255);
      for (size_t i = 0; i < len; i++) s.push_back((char)((pat + i * (cls + 1)) & 0xFF));
      return s;
    }
    for (size_t i = 0; i < len; i++) {
      switch (cls) {
        case 0: s.push_back((char)('a' + range(0, 3))); break;
        case 1: s.push_back((char)pick<int>({0x00, 0xFF, 0x7F, 0x80, '.', 'x'})); break;
        default: s.push_back((char)range(0, 255)); break;
      }
    }
    return s;
  }

  std::vector<uint64_t> log;
};

inline uint64_t fnv1a(const void* p, size_t n, uint64_t h = 1469598103934665603ull) {
  const unsigned char* b = (const unsigned char*)p;
  for (size_t i = 0; i < n; i++) { h ^= b[i]; h *= 1099511628211ull; }
  return h;
}
inline uint64_t hash_log(const std::vector<uint64_t>& log) {
  return fnv1a(log.data(), log.size() * sizeof(uint64_t));
}

// ---- replay -------------------------------------------------------------------------
struct ReplayChooser : Chooser {
  std::vector<uint64_t> src;
  size_t pos = 0;
  size_t missing = 0;
  uint64_t raw(uint64_t lo, uint64_t hi) override {
    if (pos >= src.size()) { missing++; return lo; }
    uint64_t v = src[pos++];
    if (v < lo) return lo;
    if (v > hi) return hi;
    return v;
  }
  static bool load(const std::string& path, std::vector<uint64_t>& out, std::string* header = nullptr) {
    std::ifstream in(path);
    if (!in) return false;
    std::string line;
    while (std::getline(in, line)) {
      if (line.empty()) continue;
      if (line[0] == '#') { if (header) { *header += line; *header += "\n"; } continue; }
      out.push_back(strtoull(line.c_str(), nullptr, 10));
    }
    return true;
  }
};

// ---- libFuzzer bytes ------------------------------------------------------------------
struct FuzzChooser : Chooser {
  const uint8_t* d; size_t n; size_t pos = 0;
  FuzzChooser(const uint8_t* data, size_t size) : d(data), n(size) {}
  uint64_t raw(uint64_t lo, uint64_t hi) override {
    uint64_t span = hi - lo;
    unsigned nb = span < 0x100 ? 1 : span < 0x10000 ? 2 : span < 0x100000000ull ? 4 : 8;
    uint64_t x = 0;
    for (unsigned i = 0; i < nb; i++) { x = (x << 8) | (pos < n ? d[pos] : 0); if (pos < n) pos++; }
    if (span == ~0ull) return x;
    return lo + x % (span + 1);
  }
};

inline bool save_choices(const std::string& path, const std::vector<uint64_t>& log, const std::string& header) {
  FILE* f = fopen(path.c_str(), "w");
  if (!f) return false;
  fputs(header.c_str(), f);
  for (uint64_t v : log) fprintf(f, "%llu\n", (unsigned long long)v);
  fclose(f);
  return true;
}

}  // namespace vf
