// Independent RFC 8618 interpretation of a C-DNS document (on top of cbor_ref's tree).
// Includes no file of the library under test; map keys are transcribed from the CDDL in RFC 8618
// Appendix A, plus the three implementation-specific negative Query/Response keys documented by the
// library (-1 asn, -2 country-code, -3 round-trip-time).
//  validate + interpret:   interpret(tree, FileM&, Report&)
//  table checks:           every stored index in range (Report.errors), duplicates / orphans per table
#pragma once
#include <set>
#include "cbor_ref.hpp"
#include "model.hpp"

namespace cdnsref {

using cref::Node;
using model::i128;

struct TableInfo {
  size_t size = 0;
  std::vector<std::string> canon;    // canonical rendering of every entry (for duplicate detection)
  std::vector<char> reached;         // reachability mark
};
enum TableId { T_IP, T_CLASSTYPE, T_NAME_RDATA, T_QRSIG, T_QLIST, T_QRR, T_RRLIST, T_RR, T_MMD, T_COUNT };
static const char* const TABLE_NAME[T_COUNT] = {"ip-address", "classtype", "name-rdata", "qr-sig", "qlist", "qrr", "rrlist", "rr", "malformed-message-data"};

struct BlockTables {
  TableInfo t[T_COUNT];
  // per Q/R item: set of RFC member keys present (for hint checks); sig/rr presence is collected per table entry
  std::vector<std::set<int>> qr_keys;
  std::vector<std::set<int>> sig_keys;       // per qr-sig entry
  std::vector<std::set<int>> rr_keys;        // per rr entry
  std::vector<std::set<int>> qext_keys, rext_keys;  // per Q/R item: members of query-extended / response-extended
  bool has_aec_array = false, has_mm_array = false;
  size_t duplicates = 0, orphans = 0;
  std::vector<std::string> dup_desc, orphan_desc;
};

struct Report {
  std::vector<std::string> errors;   // schema / well-formedness / index errors ("sig=... text")
  std::vector<BlockTables> tables;   // one per block
  bool ok() const { return errors.empty(); }
  std::string first() const { return errors.empty() ? "" : errors[0]; }
  void err(const std::string& sig, const std::string& text) { if (errors.size() < 50) errors.push_back("sig=" + sig + " " + text); }
};

struct Interp {
  Report& rep;
  explicit Interp(Report& r) : rep(r) {}

  // iterate a map node: calls f(key, value); reports non-integer and duplicate keys
  template <class F> void each(const Node& m, const char* what, F f) {
    std::set<i128> seen;
    for (size_t i = 0; i + 1 < m.kids.size(); i += 2) {
      const Node& k = m.kids[i];
      if (!k.is_int()) { rep.err("schema.key_type", std::string(what) + ": map key is not an integer"); continue; }
      i128 kv = k.ival();
      if (!seen.insert(kv).second) rep.err("schema.duplicate_key", std::string(what) + ": duplicate key " + model::i128s(kv));
      f(kv, m.kids[i + 1]);
    }
  }
  bool want_map(const Node& n, const char* what) { if (n.major != cref::MAP) { rep.err("schema.type", std::string(what) + " is not a map"); return false; } return true; }
  bool want_arr(const Node& n, const char* what) { if (n.major != cref::ARR) { rep.err("schema.type", std::string(what) + " is not an array"); return false; } return true; }
  bool want_uint(const Node& n, const char* what) { if (n.major != cref::UINT) { rep.err("schema.type", std::string(what) + " is not an unsigned integer"); return false; } return true; }
  bool want_int(const Node& n, const char* what) { if (!n.is_int()) { rep.err("schema.type", std::string(what) + " is not an integer"); return false; } return true; }
  bool want_bstr(const Node& n, const char* what) { if (n.major != cref::BSTR) { rep.err("schema.type", std::string(what) + " is not a byte string"); return false; } return true; }
  bool want_tstr(const Node& n, const char* what) { if (n.major != cref::TSTR) { rep.err("schema.type", std::string(what) + " is not a text string"); return false; } return true; }

  void opt_uint(const Node& v, model::Opt<i128>& o, const char* what) { if (want_uint(v, what)) o.set((i128)v.arg); }
  void opt_text(const Node& v, model::Opt<std::string>& o, const char* what) { if (want_tstr(v, what)) o.set(v.str); }

  bool timestamp(const Node& n, model::Ts& ts, const char* what) {
    if (!want_arr(n, what)) return false;
    if (n.kids.size() != 2) { rep.err("schema.timestamp", std::string(what) + ": timestamp array has " + std::to_string(n.kids.size()) + " members"); return false; }
    if (!want_uint(n.kids[0], "timestamp seconds") || !want_uint(n.kids[1], "timestamp ticks")) return false;
    ts.secs = n.kids[0].arg; ts.ticks = n.kids[1].arg;
    return true;
  }

  void storage_hints(const Node& n, model::Hints& h) {
    if (!want_map(n, "storage-hints")) return;
    int seen = 0;
    each(n, "storage-hints", [&](i128 k, const Node& v) {
      if (k >= 0 && k <= 3) { if (!want_uint(v, "storage hint")) return; seen |= 1 << (int)k; }
      if (k == 0) h.qr = v.arg; else if (k == 1) h.sig = v.arg; else if (k == 2) h.rr = v.arg; else if (k == 3) h.other = v.arg;
    });
    if (seen != 15) rep.err("schema.mandatory", "storage-hints lacks a mandatory member");
  }
  void storage_parameters(const Node& n, model::StorageP& sp) {
    if (!want_map(n, "storage-parameters")) return;
    int seen = 0;
    each(n, "storage-parameters", [&](i128 k, const Node& v) {
      switch ((int)(k < 0 || k > 100 ? 101 : k)) {
        case 0: if (want_uint(v, "ticks-per-second")) sp.tps = v.arg; seen |= 1; break;
        case 1: if (want_uint(v, "max-block-items")) sp.max_items = v.arg; seen |= 2; break;
        case 2: storage_hints(v, sp.hints); seen |= 4; break;
        case 3: if (want_arr(v, "opcodes")) for (auto& e : v.kids) if (want_uint(e, "opcode")) sp.opcodes.push_back(e.arg); seen |= 8; break;
        case 4: if (want_arr(v, "rr-types")) for (auto& e : v.kids) if (want_uint(e, "rr-type")) sp.rrtypes.push_back(e.arg); seen |= 16; break;
        case 5: opt_uint(v, sp.flags, "storage-flags"); break;
        case 6: opt_uint(v, sp.c4, "client-address-prefix-ipv4"); break;
        case 7: opt_uint(v, sp.c6, "client-address-prefix-ipv6"); break;
        case 8: opt_uint(v, sp.s4, "server-address-prefix-ipv4"); break;
        case 9: opt_uint(v, sp.s6, "server-address-prefix-ipv6"); break;
        case 10: opt_text(v, sp.sampling, "sampling-method"); break;
        case 11: opt_text(v, sp.anonym, "anonymization-method"); break;
        default: break;
      }
    });
    if (seen != 31) rep.err("schema.mandatory", "storage-parameters lacks a mandatory member");
  }
  void collection_parameters(const Node& n, model::CollP& cp) {
    if (!want_map(n, "collection-parameters")) return;
    each(n, "collection-parameters", [&](i128 k, const Node& v) {
      switch ((int)(k < 0 || k > 100 ? 101 : k)) {
        case 0: opt_uint(v, cp.query_timeout, "query-timeout"); break;
        case 1: opt_uint(v, cp.skew_timeout, "skew-timeout"); break;
        case 2: opt_uint(v, cp.snaplen, "snaplen"); break;
        case 3:
          if (v.major == cref::SIMPLE && (v.arg == 20 || v.arg == 21) && !(v.ai >= 25 && v.ai <= 27)) cp.promisc.set(v.arg == 21);
          else rep.err("schema.type", "promisc is not a boolean");
          break;
        case 4: if (want_arr(v, "interfaces")) for (auto& e : v.kids) if (want_tstr(e, "interface")) cp.interfaces.push_back(e.str); break;
        case 5: if (want_arr(v, "server-addresses")) for (auto& e : v.kids) if (want_bstr(e, "server address")) cp.server_address.push_back(e.str); break;
        case 6: if (want_arr(v, "vlan-ids")) for (auto& e : v.kids) if (want_uint(e, "vlan id")) cp.vlan_ids.push_back(e.arg); break;
        case 7: opt_text(v, cp.filter, "filter"); break;
        case 8: opt_text(v, cp.generator_id, "generator-id"); break;
        case 9: opt_text(v, cp.host_id, "host-id"); break;
        default: break;
      }
    });
  }
  void block_parameters(const Node& n, model::BlockP& bp) {
    if (!want_map(n, "block-parameters")) return;
    bool sp = false;
    each(n, "block-parameters", [&](i128 k, const Node& v) {
      if (k == 0) { storage_parameters(v, bp.sp); sp = true; }
      else if (k == 1) { bp.has_cp = true; collection_parameters(v, bp.cp); }
    });
    if (!sp) rep.err("schema.mandatory", "block-parameters lacks storage-parameters");
  }
  void preamble(const Node& n, model::Preamble& p) {
    if (!want_map(n, "file-preamble")) return;
    int seen = 0;
    each(n, "file-preamble", [&](i128 k, const Node& v) {
      if (k == 0) { if (want_uint(v, "major-format-version")) p.major = v.arg; seen |= 1; }
      else if (k == 1) { if (want_uint(v, "minor-format-version")) p.minor = v.arg; seen |= 2; }
      else if (k == 2) { opt_uint(v, p.priv, "private-version"); }
      else if (k == 3) {
        seen |= 4;
        if (want_arr(v, "block-parameters array")) for (auto& e : v.kids) { p.bps.emplace_back(); block_parameters(e, p.bps.back()); }
      }
    });
    if (seen != 7) rep.err("schema.mandatory", "file-preamble lacks a mandatory member");
  }

  // ---- block ------------------------------------------------------------------------------
  struct Tab {  // raw table arrays of one block
    const Node* a[T_COUNT] = {nullptr};
    size_t size(int t) const { return a[t] ? a[t]->kids.size() : 0; }
  };
  bool idx_ok(const Tab& tb, int t, const Node& v, const char* what, BlockTables& bt) {
    if (!want_uint(v, what)) return false;
    if (v.arg >= tb.size(t)) {
      rep.err("index.out_of_range", std::string(what) + " = " + std::to_string(v.arg) + " but table " + TABLE_NAME[t] + " has " + std::to_string(tb.size(t)) + " entries");
      return false;
    }
    bt.t[t].reached[v.arg] = 1;
    return true;
  }
  static std::string canon(const Node& n) { return cref::encode(n); }  // preferred re-encoding (members in file order)
  static std::string canon_map(const Node& n) {   // order-insensitive canonical form of a map entry with int keys
    std::map<i128, std::string> m;
    for (size_t i = 0; i + 1 < n.kids.size(); i += 2) if (n.kids[i].is_int()) m[n.kids[i].ival()] = cref::encode(n.kids[i + 1]);
    std::string o;
    for (auto& kv : m) { o += model::i128s(kv.first); o += ":"; o += model::hexs(kv.second); o += ","; }
    return o;
  }

  bool rr_list(const Tab& tb, BlockTables& bt, uint64_t li, bool questions, std::vector<model::RRec>& out) {
    int LT = questions ? T_QLIST : T_RRLIST, ET = questions ? T_QRR : T_RR;
    const Node& l = tb.a[LT]->kids[li];
    bool ok = true;
    for (auto& e : l.kids) {
      if (!idx_ok(tb, ET, e, questions ? "qlist entry" : "rrlist entry", bt)) { ok = false; continue; }
      const Node& rr = tb.a[ET]->kids[e.arg];
      model::RRec r;
      if (rr.major != cref::MAP) { ok = false; continue; }
      for (size_t i = 0; i + 1 < rr.kids.size(); i += 2) {
        if (!rr.kids[i].is_int()) continue;
        i128 k = rr.kids[i].ival();
        const Node& v = rr.kids[i + 1];
        if (k == 0) { if (v.major == cref::UINT && v.arg < tb.size(T_NAME_RDATA)) r.name = tb.a[T_NAME_RDATA]->kids[v.arg].str; else ok = false; }
        else if (k == 1) {
          if (v.major == cref::UINT && v.arg < tb.size(T_CLASSTYPE)) {
            const Node& ct = tb.a[T_CLASSTYPE]->kids[v.arg];
            for (size_t j = 0; j + 1 < ct.kids.size(); j += 2) {
              if (!ct.kids[j].is_int()) continue;
              if (ct.kids[j].ival() == 0) r.type = ct.kids[j + 1].arg; else if (ct.kids[j].ival() == 1) r.cls = ct.kids[j + 1].arg;
            }
          } else ok = false;
        }
        else if (!questions && k == 2) { if (v.major == cref::UINT) { r.has_ttl = true; r.ttl = v.arg; } }
        else if (!questions && k == 3) { if (v.major == cref::UINT && v.arg < tb.size(T_NAME_RDATA)) { r.has_rdata = true; r.rdata = tb.a[T_NAME_RDATA]->kids[v.arg].str; } else ok = false; }
      }
      out.push_back(r);
    }
    return ok;
  }

  // absolute time = earliest + offset, computed in 128-bit arithmetic with the block's tick rate
  bool abs_time(const model::BlockM& b, i128 off, i128 tps, model::Ts& out) {
    if (tps <= 0) { rep.err("time.tps_zero", "time offset present but ticks-per-second is 0"); return false; }
    if (!b.has_earliest) { rep.err("time.no_earliest", "time offset present but block preamble has no earliest-time"); return false; }
    i128 t = (i128)b.earliest.secs * tps + (i128)b.earliest.ticks + off;
    if (t < 0) { rep.err("time.negative", "record time before the epoch"); return false; }
    i128 s = t / tps;
    if (s > (i128)UINT64_MAX) { rep.err("time.overflow", "record time out of range"); return false; }
    out.secs = (uint64_t)s; out.ticks = (uint64_t)(t % tps);
    return true;
  }

  void block(const Node& n, const model::Preamble& pre, model::BlockM& b, BlockTables& bt) {
    b.begin = n.begin; b.end = n.end;
    if (!want_map(n, "block")) return;
    const Node *npre = nullptr, *nstats = nullptr, *ntab = nullptr, *nqr = nullptr, *naec = nullptr, *nmm = nullptr;
    each(n, "block", [&](i128 k, const Node& v) {
      if (k == 0) npre = &v; else if (k == 1) nstats = &v; else if (k == 2) ntab = &v; else if (k == 3) nqr = &v; else if (k == 4) naec = &v; else if (k == 5) nmm = &v;
    });
    if (!npre) rep.err("schema.mandatory", "block lacks block-preamble");
    if (npre && want_map(*npre, "block-preamble")) {
      each(*npre, "block-preamble", [&](i128 k, const Node& v) {
        if (k == 0) { if (timestamp(v, b.earliest, "earliest-time")) b.has_earliest = true; }
        else if (k == 1) { if (want_uint(v, "block-parameters-index")) { b.has_bp_index = true; b.bp_index = v.arg; } }
      });
    }
    if (b.bp_index >= pre.bps.size())
      rep.err("index.block_parameters", "block-parameters-index " + std::to_string(b.bp_index) + " but the preamble has " + std::to_string(pre.bps.size()) + " sets");
    i128 tps = b.bp_index < pre.bps.size() ? pre.bps[b.bp_index].sp.tps : 0;

    if (nstats && want_map(*nstats, "block-statistics")) {
      b.stats.present = true;
      each(*nstats, "block-statistics", [&](i128 k, const Node& v) { if (k >= 0 && k <= 5 && want_uint(v, "statistic")) b.stats.f[(int)k] = v.arg; });
    }

    // tables
    Tab tb;
    if (ntab && want_map(*ntab, "block-tables")) {
      each(*ntab, "block-tables", [&](i128 k, const Node& v) {
        if (k >= 0 && k < T_COUNT) { if (want_arr(v, "block table")) tb.a[(int)k] = &v; }
      });
    }
    for (int t = 0; t < T_COUNT; t++) { bt.t[t].size = tb.size(t); bt.t[t].reached.assign(tb.size(t), 0); }
    // entry types + canonical forms + intra-table index checks
    for (int t = 0; t < T_COUNT; t++) {
      if (!tb.a[t]) continue;
      for (auto& e : tb.a[t]->kids) {
        switch (t) {
          case T_IP: case T_NAME_RDATA: want_bstr(e, TABLE_NAME[t]); bt.t[t].canon.push_back(canon(e)); break;
          case T_QLIST: case T_RRLIST:
            if (want_arr(e, TABLE_NAME[t])) for (auto& x : e.kids) want_uint(x, "index list member");
            bt.t[t].canon.push_back(canon(e));
            break;
          default:
            want_map(e, TABLE_NAME[t]);
            bt.t[t].canon.push_back(canon_map(e));
            break;
        }
      }
    }
    auto mark_entry_refs = [&]() {
      // classtype entries
      if (tb.a[T_CLASSTYPE]) for (auto& e : tb.a[T_CLASSTYPE]->kids) if (e.major == cref::MAP) {
        int seen = 0;
        each(e, "classtype", [&](i128 k, const Node& v) { if (k == 0 || k == 1) { want_uint(v, "classtype member"); seen |= 1 << (int)k; } });
        if (seen != 3) rep.err("schema.mandatory", "classtype entry lacks type or class");
      }
    };
    mark_entry_refs();

    // Reachability is computed transitively from the stored items: a table entry's own references are
    // followed only once the entry itself has been reached.
    std::vector<char> done_sig(tb.size(T_QRSIG), 0), done_ql(tb.size(T_QLIST), 0), done_rl(tb.size(T_RRLIST), 0), done_q(tb.size(T_QRR), 0),
        done_rr(tb.size(T_RR), 0), done_mmd(tb.size(T_MMD), 0);
    bt.sig_keys.assign(tb.size(T_QRSIG), {});
    bt.rr_keys.assign(tb.size(T_RR), {});
    auto visit_q = [&](uint64_t i) {
      if (done_q[i]) return; done_q[i] = 1;
      const Node& e = tb.a[T_QRR]->kids[i];
      if (e.major != cref::MAP) return;
      int seen = 0;
      each(e, "question", [&](i128 k, const Node& v) {
        if (k == 0) { idx_ok(tb, T_NAME_RDATA, v, "question name-index", bt); seen |= 1; }
        else if (k == 1) { idx_ok(tb, T_CLASSTYPE, v, "question classtype-index", bt); seen |= 2; }
      });
      if (seen != 3) rep.err("schema.mandatory", "question entry lacks a mandatory member");
    };
    auto visit_rr = [&](uint64_t i) {
      if (done_rr[i]) return; done_rr[i] = 1;
      const Node& e = tb.a[T_RR]->kids[i];
      if (e.major != cref::MAP) return;
      int seen = 0;
      each(e, "rr", [&](i128 k, const Node& v) {
        if (k >= 0 && k <= 3) bt.rr_keys[i].insert((int)k);
        if (k == 0) { idx_ok(tb, T_NAME_RDATA, v, "rr name-index", bt); seen |= 1; }
        else if (k == 1) { idx_ok(tb, T_CLASSTYPE, v, "rr classtype-index", bt); seen |= 2; }
        else if (k == 2) want_uint(v, "rr ttl");
        else if (k == 3) idx_ok(tb, T_NAME_RDATA, v, "rr rdata-index", bt);
      });
      if (seen != 3) rep.err("schema.mandatory", "rr entry lacks a mandatory member");
    };
    auto visit_list = [&](bool questions, uint64_t i) {
      std::vector<char>& done = questions ? done_ql : done_rl;
      if (done[i]) return; done[i] = 1;
      const Node& l = tb.a[questions ? T_QLIST : T_RRLIST]->kids[i];
      if (l.major != cref::ARR) return;
      for (auto& x : l.kids) if (idx_ok(tb, questions ? T_QRR : T_RR, x, questions ? "qlist member" : "rrlist member", bt)) { if (questions) visit_q(x.arg); else visit_rr(x.arg); }
    };
    auto visit_sig = [&](uint64_t i) {
      if (done_sig[i]) return; done_sig[i] = 1;
      const Node& e = tb.a[T_QRSIG]->kids[i];
      if (e.major != cref::MAP) return;
      each(e, "qr-sig", [&](i128 k, const Node& v) {
        if (k >= 0 && k <= 16) bt.sig_keys[i].insert((int)k);
        if (k == 0) idx_ok(tb, T_IP, v, "sig server-address-index", bt);
        else if (k == 8) idx_ok(tb, T_CLASSTYPE, v, "sig query-classtype-index", bt);
        else if (k == 15) idx_ok(tb, T_NAME_RDATA, v, "sig query-opt-rdata-index", bt);
        else if (k >= 1 && k <= 16) want_uint(v, "signature member");
      });
    };
    auto visit_mmd = [&](uint64_t i) {
      if (done_mmd[i]) return; done_mmd[i] = 1;
      const Node& e = tb.a[T_MMD]->kids[i];
      if (e.major != cref::MAP) return;
      each(e, "malformed-message-data", [&](i128 k, const Node& v) {
        if (k == 0) idx_ok(tb, T_IP, v, "mmd server-address-index", bt);
        else if (k == 1 || k == 2) want_uint(v, "mmd member");
        else if (k == 3) want_bstr(v, "mm-payload");
      });
    };

    // ---- Q/R items
    if (nqr && want_arr(*nqr, "query-responses")) {
      for (auto& it : nqr->kids) {
        b.qrs.emplace_back();
        bt.qr_keys.emplace_back(); bt.qext_keys.emplace_back(); bt.rext_keys.emplace_back();
        model::Fields& f = b.qrs.back();
        if (!want_map(it, "query-response item")) continue;
        std::set<int>& keys = bt.qr_keys.back();
        each(it, "query-response", [&](i128 k, const Node& v) {
          if (k >= -3 && k <= 12) keys.insert((int)k);
          switch ((int)(k < -3 || k > 12 ? 99 : k)) {
            case 0: if (want_int(v, "time-offset")) { model::Ts t; if (abs_time(b, v.ival(), tps, t)) f[model::Q_TS] = model::Val::Time(t); } break;
            case 1: if (idx_ok(tb, T_IP, v, "client-address-index", bt)) f[model::Q_CLIENT_IP] = model::Val::Bytes(tb.a[T_IP]->kids[v.arg].str); break;
            case 2: if (want_uint(v, "client-port")) f[model::Q_CLIENT_PORT] = model::Val::Int(v.arg); break;
            case 3: if (want_uint(v, "transaction-id")) f[model::Q_TXID] = model::Val::Int(v.arg); break;
            case 4:
              if (idx_ok(tb, T_QRSIG, v, "qr-signature-index", bt)) {
                visit_sig(v.arg);
                const Node& s = tb.a[T_QRSIG]->kids[v.arg];
                if (s.major == cref::MAP) for (size_t i = 0; i + 1 < s.kids.size(); i += 2) {
                  if (!s.kids[i].is_int()) continue;
                  i128 sk = s.kids[i].ival();
                  const Node& sv = s.kids[i + 1];
                  if (sk < 0 || sk > 16 || sv.major != cref::UINT) continue;
                  static const int MAPF[17] = {model::Q_SERVER_IP, model::Q_SERVER_PORT, model::Q_TRANSPORT, model::Q_QRTYPE, model::Q_SIGFLAGS, model::Q_OPCODE,
                                               model::Q_DNSFLAGS, model::Q_QRCODE, model::Q_CLASSTYPE, model::Q_QDCOUNT, model::Q_ANCOUNT, model::Q_NSCOUNT,
                                               model::Q_ARCOUNT, model::Q_EDNSVER, model::Q_UDPSIZE, model::Q_OPTRDATA, model::Q_RRCODE};
                  int fid = MAPF[(int)sk];
                  if (sk == 0) { if (sv.arg < tb.size(T_IP)) f[fid] = model::Val::Bytes(tb.a[T_IP]->kids[sv.arg].str); }
                  else if (sk == 8) {
                    if (sv.arg < tb.size(T_CLASSTYPE)) {
                      const Node& ct = tb.a[T_CLASSTYPE]->kids[sv.arg];
                      i128 ty = 0, cl = 0;
                      for (size_t j = 0; j + 1 < ct.kids.size(); j += 2) if (ct.kids[j].is_int()) { if (ct.kids[j].ival() == 0) ty = ct.kids[j + 1].arg; else if (ct.kids[j].ival() == 1) cl = ct.kids[j + 1].arg; }
                      f[fid] = model::Val::Ct(ty, cl);
                    }
                  }
                  else if (sk == 15) { if (sv.arg < tb.size(T_NAME_RDATA)) f[fid] = model::Val::Bytes(tb.a[T_NAME_RDATA]->kids[sv.arg].str); }
                  else f[fid] = model::Val::Int(sv.arg);
                }
              }
              break;
            case 5: if (want_uint(v, "client-hoplimit")) f[model::Q_HOPLIMIT] = model::Val::Int(v.arg); break;
            case 6: if (want_int(v, "response-delay")) f[model::Q_DELAY] = model::Val::Int(v.ival()); break;
            case 7: if (idx_ok(tb, T_NAME_RDATA, v, "query-name-index", bt)) f[model::Q_QNAME] = model::Val::Bytes(tb.a[T_NAME_RDATA]->kids[v.arg].str); break;
            case 8: if (want_uint(v, "query-size")) f[model::Q_QSIZE] = model::Val::Int(v.arg); break;
            case 9: if (want_uint(v, "response-size")) f[model::Q_RSIZE] = model::Val::Int(v.arg); break;
            case 10:
              if (want_map(v, "response-processing-data")) each(v, "response-processing-data", [&](i128 pk, const Node& pv) {
                if (pk == 0) { if (idx_ok(tb, T_NAME_RDATA, pv, "bailiwick-index", bt)) f[model::Q_BAILIWICK] = model::Val::Bytes(tb.a[T_NAME_RDATA]->kids[pv.arg].str); }
                else if (pk == 1) { if (want_uint(pv, "processing-flags")) f[model::Q_PROCFLAGS] = model::Val::Int(pv.arg); }
              });
              break;
            case 11: case 12:
              if (want_map(v, "query/response-extended")) each(v, "extended", [&](i128 ek, const Node& ev) {
                if (ek < 0 || ek > 3) return;
                (k == 11 ? bt.qext_keys.back() : bt.rext_keys.back()).insert((int)ek);
                bool questions = ek == 0;
                if (!idx_ok(tb, questions ? T_QLIST : T_RRLIST, ev, "extended section index", bt)) return;
                visit_list(questions, ev.arg);
                std::vector<model::RRec> rrs;
                rr_list(tb, bt, ev.arg, questions, rrs);
                static const int QX[4] = {model::Q_QQ, model::Q_QAN, model::Q_QAU, model::Q_QAD};
                static const int RX[4] = {model::Q_RQ, model::Q_RAN, model::Q_RAU, model::Q_RAD};
                f[(k == 11 ? QX : RX)[(int)ek]] = model::Val::Rrs(rrs);
              });
              break;
            case -1: if (want_tstr(v, "asn")) f[model::Q_ASN] = model::Val::Text(v.str); break;
            case -2: if (want_tstr(v, "country-code")) f[model::Q_CC] = model::Val::Text(v.str); break;
            case -3: if (want_int(v, "round-trip-time")) f[model::Q_RTT] = model::Val::Int(v.ival()); break;
            default: break;
          }
        });
      }
    }
    // ---- address event counts
    if (naec && want_arr(*naec, "address-event-counts")) {
      bt.has_aec_array = true;
      for (auto& it : naec->kids) {
        b.aec_entries++;
        if (!want_map(it, "address-event-count item")) continue;
        model::AecKey key; i128 count = 0; int seen = 0;
        each(it, "address-event-count", [&](i128 k, const Node& v) {
          if (k == 0) { if (want_uint(v, "ae-type")) key.type = v.arg; seen |= 1; }
          else if (k == 1) { if (want_uint(v, "ae-code")) { key.has_code = true; key.code = v.arg; } }
          else if (k == 2) { if (idx_ok(tb, T_IP, v, "ae-address-index", bt)) key.ip = tb.a[T_IP]->kids[v.arg].str; seen |= 2; }
          else if (k == 3) { if (want_uint(v, "ae-transport-flags")) { key.has_tf = true; key.tf = v.arg; } }
          else if (k == 4) { if (want_uint(v, "ae-count")) count = v.arg; seen |= 4; }
        });
        if (seen != 7) rep.err("schema.mandatory", "address-event-count lacks a mandatory member");
        b.aecs[key.key()] += count;
      }
    }
    // ---- malformed messages
    if (nmm && want_arr(*nmm, "malformed-messages")) {
      bt.has_mm_array = true;
      for (auto& it : nmm->kids) {
        b.mms.emplace_back();
        model::Fields& f = b.mms.back();
        if (!want_map(it, "malformed-message item")) continue;
        each(it, "malformed-message", [&](i128 k, const Node& v) {
          if (k == 0) { if (want_int(v, "mm time-offset")) { model::Ts t; if (abs_time(b, v.ival(), tps, t)) f[model::M_TS] = model::Val::Time(t); } }
          else if (k == 1) { if (idx_ok(tb, T_IP, v, "mm client-address-index", bt)) f[model::M_CLIENT_IP] = model::Val::Bytes(tb.a[T_IP]->kids[v.arg].str); }
          else if (k == 2) { if (want_uint(v, "mm client-port")) f[model::M_CLIENT_PORT] = model::Val::Int(v.arg); }
          else if (k == 3) {
            if (idx_ok(tb, T_MMD, v, "message-data-index", bt)) {
              visit_mmd(v.arg);
              const Node& d = tb.a[T_MMD]->kids[v.arg];
              if (d.major == cref::MAP) for (size_t i = 0; i + 1 < d.kids.size(); i += 2) {
                if (!d.kids[i].is_int()) continue;
                i128 dk = d.kids[i].ival();
                const Node& dv = d.kids[i + 1];
                if (dk == 0 && dv.major == cref::UINT && dv.arg < tb.size(T_IP)) f[model::M_SERVER_IP] = model::Val::Bytes(tb.a[T_IP]->kids[dv.arg].str);
                else if (dk == 1 && dv.major == cref::UINT) f[model::M_SERVER_PORT] = model::Val::Int(dv.arg);
                else if (dk == 2 && dv.major == cref::UINT) f[model::M_TRANSPORT] = model::Val::Int(dv.arg);
                else if (dk == 3 && dv.major == cref::BSTR) f[model::M_PAYLOAD] = model::Val::Bytes(dv.str);
              }
            }
          }
        });
      }
    }
    // entries never reached still get their own references validated (an index stored in ANY table entry
    // must address an existing entry), without marking what they refer to as reachable
    {
      BlockTables scratch;
      for (int t = 0; t < T_COUNT; t++) scratch.t[t].reached.assign(tb.size(t), 0);
      BlockTables saved = bt;
      for (uint64_t i = 0; i < tb.size(T_QRSIG); i++) visit_sig(i);
      for (uint64_t i = 0; i < tb.size(T_QLIST); i++) visit_list(true, i);
      for (uint64_t i = 0; i < tb.size(T_RRLIST); i++) visit_list(false, i);
      for (uint64_t i = 0; i < tb.size(T_QRR); i++) visit_q(i);
      for (uint64_t i = 0; i < tb.size(T_RR); i++) visit_rr(i);
      for (uint64_t i = 0; i < tb.size(T_MMD); i++) visit_mmd(i);
      for (int t = 0; t < T_COUNT; t++) bt.t[t].reached = saved.t[t].reached;
    }
    // duplicates and orphans
    for (int t = 0; t < T_COUNT; t++) {
      std::map<std::string, size_t> first;
      for (size_t i = 0; i < bt.t[t].canon.size(); i++) {
        auto ins = first.emplace(bt.t[t].canon[i], i);
        if (!ins.second) { bt.duplicates++; if (bt.dup_desc.size() < 5) bt.dup_desc.push_back(std::string(TABLE_NAME[t]) + "[" + std::to_string(ins.first->second) + "]==[" + std::to_string(i) + "]"); }
      }
      for (size_t i = 0; i < bt.t[t].reached.size(); i++)
        if (!bt.t[t].reached[i]) { bt.orphans++; if (bt.orphan_desc.size() < 5) bt.orphan_desc.push_back(std::string(TABLE_NAME[t]) + "[" + std::to_string(i) + "]"); }
    }
  }

  void file(const Node& root, model::FileM& out) {
    if (!want_arr(root, "file")) return;
    if (root.kids.size() != 3) { rep.err("schema.file_array", "file array has " + std::to_string(root.kids.size()) + " members, expected 3"); return; }
    if (root.kids[0].major != cref::TSTR || root.kids[0].str != "C-DNS") rep.err("schema.file_type_id", "file type id is not the text string \"C-DNS\"");
    preamble(root.kids[1], out.pre);
    if (!want_arr(root.kids[2], "file-blocks")) return;
    for (auto& bn : root.kids[2].kids) {
      out.blocks.emplace_back();
      rep.tables.emplace_back();
      block(bn, out.pre, out.blocks.back(), rep.tables.back());
    }
  }
};

// Parse + validate + interpret one complete document.  Returns false when the bytes are not exactly
// one well-formed CBOR item; schema problems are listed in rep.errors.
inline bool interpret(const std::string& bytes, model::FileM& out, Report& rep, cref::Node* tree_out = nullptr) {
  cref::Node root;
  std::string err;
  if (!cref::parse_all(bytes, root, err)) { rep.err("cbor.not_well_formed", err); return false; }
  Interp ip(rep);
  ip.file(root, out);
  if (tree_out) *tree_out = std::move(root);
  return true;
}

}  // namespace cdnsref
