// Read-side entry points exercised on untrusted bytes (C03), shared by the rapidcheck harness and the
// libFuzzer targets.  Everything the library reports through std::exception is fine; anything else
// (other exception types, sanitizer reports, signals) is a violation detected by the caller / the sanitizers.
#pragma once
#include <new>
#include <sstream>
#include <string>
#include "cdns.h"

namespace consume {

struct Result {
  bool header_ok = false;
  unsigned blocks = 0, records = 0, ops = 0;
  std::string exc;          // what() of the std::exception that ended processing ("" = none)
  std::string exc_class;
  bool non_std = false;     // an exception not derived from std::exception escaped
  size_t rendered = 0;
  uint64_t digest = 1469598103934665603ull;   // FNV-1a over everything observable (rendered text, values, exception classes)
  void mix(const std::string& t) { for (unsigned char ch : t) { digest ^= ch; digest *= 1099511628211ull; } digest ^= 0xFF; digest *= 1099511628211ull; }
  void mix(uint64_t v) { for (int i = 0; i < 8; i++) { digest ^= (v >> (8 * i)) & 0xFF; digest *= 1099511628211ull; } }
};

inline void classify(Result& r, const std::exception& e) {
  r.exc = e.what();
  r.mix(std::string("exception:") + e.what());
  if (dynamic_cast<const CDNS::CdnsDecoderEnd*>(&e)) r.exc_class = "CdnsDecoderEnd";
  else if (dynamic_cast<const CDNS::CdnsDecoderException*>(&e)) r.exc_class = "CdnsDecoderException";
  else if (dynamic_cast<const std::bad_alloc*>(&e)) r.exc_class = "bad_alloc";
  else if (dynamic_cast<const std::length_error*>(&e)) r.exc_class = "length_error";
  else if (dynamic_cast<const std::runtime_error*>(&e)) r.exc_class = "runtime_error";
  else r.exc_class = "std::exception";
}

// CdnsReader: header, every block, every generic record, every string() renderer
// `mem` (optional): storage of at least sizeof(CdnsReader) bytes in which the reader object is constructed; its
// previous content is what the reader's never-initialised decoder window starts with (poison-differential oracle)
inline Result reader(const std::string& bytes, void* mem = nullptr) {
  Result r;
  std::istringstream is(bytes);
  struct Holder {
    CDNS::CdnsReader* p = nullptr; bool placed = false;
    ~Holder() { if (p) { if (placed) p->~CdnsReader(); else delete p; } }
  } h;
  try {
    h.placed = mem != nullptr;
    h.p = mem ? new (mem) CDNS::CdnsReader(is) : new CDNS::CdnsReader(is);
    CDNS::CdnsReader& rd = *h.p;
    r.header_ok = true;
    { std::string t__ = rd.m_file_preamble.string(); r.rendered += t__.size(); r.mix(t__); }
    for (auto& bp : rd.m_file_preamble.m_block_parameters) { std::string t__ = bp.string(); r.rendered += t__.size(); r.mix(t__); }
    for (;;) {
      bool eof = false;
      CDNS::CdnsBlockRead b = rd.read_block(eof);
      if (eof) break;
      r.blocks++;
      { std::string t__ = b.string(); r.rendered += t__.size(); r.mix(t__); }
      // index-level items and table entries
      for (auto& q : b.m_query_responses) { std::string t__ = q.string(); r.rendered += t__.size(); r.mix(t__); }
      for (auto& m : b.m_malformed_messages) { std::string t__ = m.string(); r.rendered += t__.size(); r.mix(t__); }
      for (auto& a : b.m_address_event_counts) { CDNS::AddressEventCount t = a.first; { std::string t__ = t.string(); r.rendered += t__.size(); r.mix(t__); } }
      for (auto& e : b.m_classtype) { std::string t__ = e.string(); r.rendered += t__.size(); r.mix(t__); }
      for (auto& e : b.m_qr_sig) { std::string t__ = e.string(); r.rendered += t__.size(); r.mix(t__); }
      for (auto& e : b.m_qrr) { std::string t__ = e.string(); r.rendered += t__.size(); r.mix(t__); }
      for (auto& e : b.m_rr) { std::string t__ = e.string(); r.rendered += t__.size(); r.mix(t__); }
      for (auto& e : b.m_malformed_message_data) { std::string t__ = e.string(); r.rendered += t__.size(); r.mix(t__); }
      // generic accessors: each loop is ended by the first failing record (exceptions are per call)
      bool end = false;
      for (unsigned guard = 0; guard < 100000; guard++) {
        try { CDNS::GenericQueryResponse g = b.read_generic_qr(end); if (end) break; r.records++; { std::string t__ = g.string(); r.rendered += t__.size(); r.mix(t__); } }
        catch (const std::exception& e) { classify(r, e); break; }
      }
      for (unsigned guard = 0; guard < 100000; guard++) {
        try { CDNS::GenericAddressEventCount g = b.read_generic_aec(end); if (end) break; r.records++; { std::string t__ = g.string(); r.rendered += t__.size(); r.mix(t__); } }
        catch (const std::exception& e) { classify(r, e); break; }
      }
      for (unsigned guard = 0; guard < 100000; guard++) {
        try { CDNS::GenericMalformedMessage g = b.read_generic_mm(end); if (end) break; r.records++; { std::string t__ = g.string(); r.rendered += t__.size(); r.mix(t__); } }
        catch (const std::exception& e) { classify(r, e); break; }
      }
      // copies of untrusted blocks must be safe as well
      CDNS::CdnsBlockRead copy(b);
      { std::string t__ = copy.string(); r.rendered += t__.size(); r.mix(t__); }
    }
  } catch (const std::exception& e) { classify(r, e);
  } catch (...) { r.non_std = true; }
  return r;
}

// The same file through the lower-level public API: the application drives a CdnsDecoder itself and reads every block into ONE
// CdnsBlockRead object (CdnsBlockRead::read), draining whatever the object holds through the record accessors after each read -
// also after a read that failed (an application that logs what it got before giving up).
inline void drain(CDNS::CdnsBlockRead& b, Result& r) {
  bool end = false;
  for (unsigned guard = 0; guard < 100000; guard++) {
    try { CDNS::GenericQueryResponse g = b.read_generic_qr(end); if (end) break; r.records++; { std::string t__ = g.string(); r.rendered += t__.size(); r.mix(t__); } }
    catch (const std::exception& e) { classify(r, e); break; }
  }
  for (unsigned guard = 0; guard < 100000; guard++) {
    try { CDNS::GenericAddressEventCount g = b.read_generic_aec(end); if (end) break; r.records++; { std::string t__ = g.string(); r.rendered += t__.size(); r.mix(t__); } }
    catch (const std::exception& e) { classify(r, e); break; }
  }
  for (unsigned guard = 0; guard < 100000; guard++) {
    try { CDNS::GenericMalformedMessage g = b.read_generic_mm(end); if (end) break; r.records++; { std::string t__ = g.string(); r.rendered += t__.size(); r.mix(t__); } }
    catch (const std::exception& e) { classify(r, e); break; }
  }
}
inline Result reuse_block_object(const std::string& bytes) {
  Result r;
  std::istringstream is(bytes);
  try {
    CDNS::CdnsDecoder dec(is);
    bool indef = false, blocks_indef = false;
    dec.read_array_start(indef);
    r.mix(dec.read_textstring());
    CDNS::FilePreamble fp;
    fp.read(dec);
    uint64_t n = dec.read_array_start(blocks_indef);
    r.header_ok = true;
    CDNS::CdnsBlockRead blk;
    for (uint64_t k = 0; k < 4096; k++) {
      if (blocks_indef ? dec.peek_type() == CDNS::CborType::BREAK : k >= n) break;
      bool failed = false;
      try { blk.read(dec, fp.m_block_parameters); r.blocks++; }
      catch (const std::exception& e) { classify(r, e); failed = true; }
      drain(blk, r);
      if (failed) break;
    }
  } catch (const std::exception& e) { classify(r, e);
  } catch (...) { r.non_std = true; }
  return r;
}

// CdnsDecoder: an operation program over a stream
inline Result decoder(const std::string& bytes, const std::string& program, void* mem = nullptr) {
  Result r;
  std::istringstream is(bytes);
  struct Holder {
    CDNS::CdnsDecoder* p = nullptr; bool placed = false;
    ~Holder() { if (p) { if (placed) p->~CdnsDecoder(); else delete p; } }
  } h;
  try {
    h.placed = mem != nullptr;
    h.p = mem ? new (mem) CDNS::CdnsDecoder(is) : new CDNS::CdnsDecoder(is);
    CDNS::CdnsDecoder& d = *h.p;
    for (size_t i = 0; i < program.size(); i++) {
      bool indef = false;
      r.ops++;
      try {
        switch ((unsigned char)program[i] % 12) {
          case 0: r.mix((uint64_t)d.peek_type()); break;
          case 1: r.mix(d.read_unsigned()); break;
          case 2: r.mix((uint64_t)d.read_negative()); break;
          case 3: r.mix((uint64_t)d.read_integer()); break;
          case 4: r.mix((uint64_t)d.read_bool()); break;
          case 5: { std::string t = d.read_bytestring(); r.rendered += t.size(); r.mix(t); break; }
          case 6: { std::string t = d.read_textstring(); r.rendered += t.size(); r.mix(t); break; }
          case 7: { uint64_t n = d.read_array_start(indef); r.mix(indef ? ~0ull : n); break; }
          case 8: { uint64_t n = d.read_map_start(indef); r.mix(indef ? ~0ull : n); break; }
          case 9: d.read_array([&](CDNS::CdnsDecoder& dd) { dd.skip_item(); }); break;
          case 10: d.read_break(); break;
          default: d.skip_item(); break;
        }
      } catch (const CDNS::CdnsDecoderEnd& e) { classify(r, e); return r;       // end of input ends the program
      } catch (const std::exception& e) { classify(r, e); }                     // other errors: go on with the next operation
    }
  } catch (const std::exception& e) { classify(r, e);
  } catch (...) { r.non_std = true; }
  return r;
}

}  // namespace consume
