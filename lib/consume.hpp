// Read-side entry points exercised on untrusted bytes (C03), shared by the rapidcheck harness and the
// libFuzzer targets.  Everything the library reports through std::exception is fine; anything else
// (other exception types, sanitizer reports, signals) is a violation detected by the caller / the sanitizers.
#pragma once
#include <sstream>
#include <string>
#include "cdns.h"

namespace consume {

struct Result {
  bool header_ok = false;
  unsigned blocks = 0, records = 0, ops = 0;
  std::string exc;          // what() of the std::exception that ended processing ("" = none)
  std::string exc_class;
  bool non_std = false;     // an exception not derived from std::exception escaped
  size_t rendered = 0;
};

inline void classify(Result& r, const std::exception& e) {
  r.exc = e.what();
  if (dynamic_cast<const CDNS::CdnsDecoderEnd*>(&e)) r.exc_class = "CdnsDecoderEnd";
  else if (dynamic_cast<const CDNS::CdnsDecoderException*>(&e)) r.exc_class = "CdnsDecoderException";
  else if (dynamic_cast<const std::bad_alloc*>(&e)) r.exc_class = "bad_alloc";
  else if (dynamic_cast<const std::length_error*>(&e)) r.exc_class = "length_error";
  else if (dynamic_cast<const std::runtime_error*>(&e)) r.exc_class = "runtime_error";
  else r.exc_class = "std::exception";
}

// CdnsReader: header, every block, every generic record, every string() renderer
inline Result reader(const std::string& bytes) {
  Result r;
  std::istringstream is(bytes);
  try {
    CDNS::CdnsReader rd(is);
    r.header_ok = true;
    r.rendered += rd.m_file_preamble.string().size();
    for (auto& bp : rd.m_file_preamble.m_block_parameters) r.rendered += bp.string().size();
    for (;;) {
      bool eof = false;
      CDNS::CdnsBlockRead b = rd.read_block(eof);
      if (eof) break;
      r.blocks++;
      r.rendered += b.string().size();
      // index-level items and table entries
      for (auto& q : b.m_query_responses) r.rendered += q.string().size();
      for (auto& m : b.m_malformed_messages) r.rendered += m.string().size();
      for (auto& a : b.m_address_event_counts) { CDNS::AddressEventCount t = a.first; r.rendered += t.string().size(); }
      for (auto& e : b.m_classtype) r.rendered += e.string().size();
      for (auto& e : b.m_qr_sig) r.rendered += e.string().size();
      for (auto& e : b.m_qrr) r.rendered += e.string().size();
      for (auto& e : b.m_rr) r.rendered += e.string().size();
      for (auto& e : b.m_malformed_message_data) r.rendered += e.string().size();
      // generic accessors: each loop is ended by the first failing record (exceptions are per call)
      bool end = false;
      for (unsigned guard = 0; guard < 100000; guard++) {
        try { CDNS::GenericQueryResponse g = b.read_generic_qr(end); if (end) break; r.records++; r.rendered += g.string().size(); }
        catch (const std::exception& e) { classify(r, e); break; }
      }
      for (unsigned guard = 0; guard < 100000; guard++) {
        try { CDNS::GenericAddressEventCount g = b.read_generic_aec(end); if (end) break; r.records++; r.rendered += g.string().size(); }
        catch (const std::exception& e) { classify(r, e); break; }
      }
      for (unsigned guard = 0; guard < 100000; guard++) {
        try { CDNS::GenericMalformedMessage g = b.read_generic_mm(end); if (end) break; r.records++; r.rendered += g.string().size(); }
        catch (const std::exception& e) { classify(r, e); break; }
      }
      // copies of untrusted blocks must be safe as well
      CDNS::CdnsBlockRead copy(b);
      r.rendered += copy.string().size();
    }
  } catch (const std::exception& e) { classify(r, e);
  } catch (...) { r.non_std = true; }
  return r;
}

// CdnsDecoder: an operation program over a stream
inline Result decoder(const std::string& bytes, const std::string& program) {
  Result r;
  std::istringstream is(bytes);
  try {
    CDNS::CdnsDecoder d(is);
    for (size_t i = 0; i < program.size(); i++) {
      bool indef = false;
      r.ops++;
      try {
        switch ((unsigned char)program[i] % 12) {
          case 0: (void)d.peek_type(); break;
          case 1: (void)d.read_unsigned(); break;
          case 2: (void)d.read_negative(); break;
          case 3: (void)d.read_integer(); break;
          case 4: (void)d.read_bool(); break;
          case 5: r.rendered += d.read_bytestring().size(); break;
          case 6: r.rendered += d.read_textstring().size(); break;
          case 7: (void)d.read_array_start(indef); break;
          case 8: (void)d.read_map_start(indef); break;
          case 9: d.read_array([&](CDNS::CdnsDecoder& dd) { dd.skip_item(); }); break;
          case 10: d.read_break(); break;
          default: d.skip_item(); break;
        }
      } catch (const CDNS::CdnsDecoderEnd& e) { classify(r, e); return r;       // end of input ends the program
      } catch (const std::exception& e) { classify(r, e); }                     // other errors: go on with the next operation
    }
  } catch (const std::exception& e) { classify(r, e);
  } catch (...) { r.non_std = true; }
  return r;
}

}  // namespace consume
