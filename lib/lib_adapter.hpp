// The only place that converts between model values and the library's Generic*/FilePreamble structs.
// No logic beyond member copying.
#pragma once
#include "cdns.h"
#include "model.hpp"

namespace adapt {
using model::Fields;
using model::Val;
namespace M = model;

inline CDNS::Timestamp ts(const M::Ts& t) { return CDNS::Timestamp(t.secs, t.ticks); }
inline M::Ts ts(const CDNS::Timestamp& t) { M::Ts r; r.secs = t.m_secs; r.ticks = t.m_ticks; return r; }

inline std::vector<CDNS::GenericResourceRecord> rrs(const std::vector<M::RRec>& v) {
  std::vector<CDNS::GenericResourceRecord> out;
  for (auto& r : v) {
    CDNS::GenericResourceRecord g;
    g.name = r.name;
    g.classtype.type = (uint16_t)r.type;
    g.classtype.class_ = (uint16_t)r.cls;
    if (r.has_ttl) g.ttl = (uint32_t)r.ttl;
    if (r.has_rdata) g.rdata = r.rdata;
    out.push_back(g);
  }
  return out;
}
inline std::vector<M::RRec> rrs(const std::vector<CDNS::GenericResourceRecord>& v) {
  std::vector<M::RRec> out;
  for (auto& g : v) {
    M::RRec r;
    r.name = g.name;
    r.type = g.classtype.type;
    r.cls = g.classtype.class_;
    if (g.ttl) { r.has_ttl = true; r.ttl = *g.ttl; }
    if (g.rdata) { r.has_rdata = true; r.rdata = *g.rdata; }
    out.push_back(r);
  }
  return out;
}

#define VF_QR_INT_FIELDS(X)                                                                                       \
  X(M::Q_CLIENT_PORT, client_port, uint16_t) X(M::Q_TXID, transaction_id, uint16_t) X(M::Q_SERVER_PORT, server_port, uint16_t)          \
  X(M::Q_TRANSPORT, qr_transport_flags, CDNS::QueryResponseTransportFlagsMask) X(M::Q_QRTYPE, qr_type, CDNS::QueryResponseTypeValues)  \
  X(M::Q_SIGFLAGS, qr_sig_flags, CDNS::QueryResponseFlagsMask) X(M::Q_OPCODE, query_opcode, uint8_t)                                  \
  X(M::Q_DNSFLAGS, qr_dns_flags, CDNS::DNSFlagsMask) X(M::Q_QRCODE, query_rcode, uint16_t) X(M::Q_QDCOUNT, query_qdcount, uint16_t)     \
  X(M::Q_ANCOUNT, query_ancount, uint16_t) X(M::Q_NSCOUNT, query_nscount, uint16_t) X(M::Q_ARCOUNT, query_arcount, uint16_t)           \
  X(M::Q_EDNSVER, query_edns_version, uint8_t) X(M::Q_UDPSIZE, query_udp_size, uint16_t) X(M::Q_RRCODE, response_rcode, uint16_t)      \
  X(M::Q_HOPLIMIT, client_hoplimit, uint8_t) X(M::Q_DELAY, response_delay, int64_t) X(M::Q_QSIZE, query_size, std::size_t)             \
  X(M::Q_RSIZE, response_size, std::size_t) X(M::Q_PROCFLAGS, processing_flags, CDNS::ResponseProcessingFlagsMask)                    \
  X(M::Q_RTT, round_trip_time, int64_t)
#define VF_QR_BYTES_FIELDS(X)                                                                                     \
  X(M::Q_CLIENT_IP, client_ip) X(M::Q_SERVER_IP, server_ip) X(M::Q_OPTRDATA, query_opt_rdata) X(M::Q_QNAME, query_name) X(M::Q_BAILIWICK, bailiwick)
#define VF_QR_TEXT_FIELDS(X) X(M::Q_ASN, asn) X(M::Q_CC, country_code)
#define VF_QR_LIST_FIELDS(X)                                                                                      \
  X(M::Q_QQ, query_questions) X(M::Q_QAN, query_answers) X(M::Q_QAU, query_authority) X(M::Q_QAD, query_additional)   \
  X(M::Q_RQ, response_questions) X(M::Q_RAN, response_answers) X(M::Q_RAU, response_authority) X(M::Q_RAD, response_additional)

inline CDNS::GenericQueryResponse generic_qr(const Fields& f) {
  CDNS::GenericQueryResponse g;
  for (auto& kv : f) {
    const Val& v = kv.second;
    switch (kv.first) {
      case M::Q_TS: g.ts = ts(v.ts); break;
      case M::Q_CLASSTYPE: { CDNS::ClassType ct; ct.type = (uint16_t)v.i; ct.class_ = (uint16_t)v.j; g.query_classtype = ct; break; }
#define X(id, mem, T) case id: g.mem = static_cast<T>(static_cast<typename std::conditional<std::is_enum<T>::value, uint64_t, T>::type>(v.i)); break;
      VF_QR_INT_FIELDS(X)
#undef X
#define X(id, mem) case id: g.mem = v.s; break;
      VF_QR_BYTES_FIELDS(X)
      VF_QR_TEXT_FIELDS(X)
#undef X
#define X(id, mem) case id: g.mem = rrs(v.rr); break;
      VF_QR_LIST_FIELDS(X)
#undef X
      default: break;
    }
  }
  return g;
}
inline Fields model_qr(const CDNS::GenericQueryResponse& g) {
  Fields f;
  if (g.ts) f[M::Q_TS] = Val::Time(ts(*g.ts));
  if (g.query_classtype) f[M::Q_CLASSTYPE] = Val::Ct(g.query_classtype->type, g.query_classtype->class_);
#define X(id, mem, T) if (g.mem) f[id] = Val::Int((M::i128)(*g.mem));
  VF_QR_INT_FIELDS(X)
#undef X
#define X(id, mem) if (g.mem) f[id] = Val::Bytes(*g.mem);
  VF_QR_BYTES_FIELDS(X)
#undef X
#define X(id, mem) if (g.mem) f[id] = Val::Text(*g.mem);
  VF_QR_TEXT_FIELDS(X)
#undef X
#define X(id, mem) if (g.mem) f[id] = Val::Rrs(rrs(*g.mem));
  VF_QR_LIST_FIELDS(X)
#undef X
  return f;
}

inline CDNS::GenericMalformedMessage generic_mm(const Fields& f) {
  CDNS::GenericMalformedMessage g;
  for (auto& kv : f) {
    const Val& v = kv.second;
    switch (kv.first) {
      case M::M_TS: g.ts = ts(v.ts); break;
      case M::M_CLIENT_IP: g.client_ip = v.s; break;
      case M::M_CLIENT_PORT: g.client_port = (uint16_t)v.i; break;
      case M::M_SERVER_IP: g.server_ip = v.s; break;
      case M::M_SERVER_PORT: g.server_port = (uint16_t)v.i; break;
      case M::M_TRANSPORT: g.mm_transport_flags = static_cast<CDNS::QueryResponseTransportFlagsMask>((uint8_t)v.i); break;
      case M::M_PAYLOAD: g.mm_payload = v.s; break;
    }
  }
  return g;
}
inline Fields model_mm(const CDNS::GenericMalformedMessage& g) {
  Fields f;
  if (g.ts) f[M::M_TS] = Val::Time(ts(*g.ts));
  if (g.client_ip) f[M::M_CLIENT_IP] = Val::Bytes(*g.client_ip);
  if (g.client_port) f[M::M_CLIENT_PORT] = Val::Int(*g.client_port);
  if (g.server_ip) f[M::M_SERVER_IP] = Val::Bytes(*g.server_ip);
  if (g.server_port) f[M::M_SERVER_PORT] = Val::Int(*g.server_port);
  if (g.mm_transport_flags) f[M::M_TRANSPORT] = Val::Int((uint8_t)*g.mm_transport_flags);
  if (g.mm_payload) f[M::M_PAYLOAD] = Val::Bytes(*g.mm_payload);
  return f;
}

inline CDNS::GenericAddressEventCount generic_aec(const M::AecKey& k) {
  CDNS::GenericAddressEventCount g;
  g.ae_type = static_cast<CDNS::AddressEventTypeValues>((uint8_t)k.type);
  if (k.has_code) g.ae_code = (uint8_t)k.code;
  if (k.has_tf) g.ae_transport_flags = static_cast<CDNS::QueryResponseTransportFlagsMask>((uint8_t)k.tf);
  g.ip_address = k.ip;
  return g;
}
inline M::AecKey model_aec(const CDNS::GenericAddressEventCount& g) {
  M::AecKey k;
  k.type = (uint8_t)g.ae_type;
  if (g.ae_code) { k.has_code = true; k.code = *g.ae_code; }
  if (g.ae_transport_flags) { k.has_tf = true; k.tf = (uint8_t)*g.ae_transport_flags; }
  k.ip = g.ip_address;
  return k;
}

inline boost::optional<CDNS::BlockStatistics> lib_stats(const M::StatsM& s) {
  if (!s.present) return boost::none;
  CDNS::BlockStatistics b;
  for (auto& kv : s.f) {
    unsigned v = (unsigned)kv.second;
    switch (kv.first) {
      case 0: b.processed_messages = v; break;
      case 1: b.qr_data_items = v; break;
      case 2: b.unmatched_queries = v; break;
      case 3: b.unmatched_responses = v; break;
      case 4: b.discarded_opcode = v; break;
      case 5: b.malformed_items = v; break;
    }
  }
  return b;
}
inline M::StatsM model_stats(const boost::optional<CDNS::BlockStatistics>& b) {
  M::StatsM s;
  if (!b) return s;
  s.present = true;
  if (b->processed_messages) s.f[0] = *b->processed_messages;
  if (b->qr_data_items) s.f[1] = *b->qr_data_items;
  if (b->unmatched_queries) s.f[2] = *b->unmatched_queries;
  if (b->unmatched_responses) s.f[3] = *b->unmatched_responses;
  if (b->discarded_opcode) s.f[4] = *b->discarded_opcode;
  if (b->malformed_items) s.f[5] = *b->malformed_items;
  return s;
}

// ---- preamble -----------------------------------------------------------------------------
inline CDNS::BlockParameters lib_bp(const M::BlockP& b) {
  CDNS::BlockParameters o;
  auto& sp = o.storage_parameters;
  sp.ticks_per_second = (uint64_t)b.sp.tps;
  sp.max_block_items = (uint64_t)b.sp.max_items;
  sp.storage_hints.query_response_hints = (uint32_t)b.sp.hints.qr;
  sp.storage_hints.query_response_signature_hints = (uint32_t)b.sp.hints.sig;
  sp.storage_hints.rr_hints = (uint8_t)b.sp.hints.rr;
  sp.storage_hints.other_data_hints = (uint8_t)b.sp.hints.other;
  sp.opcodes.clear();
  for (auto v : b.sp.opcodes) sp.opcodes.push_back(static_cast<CDNS::OpCodes>((uint8_t)v));
  sp.rr_types.clear();
  for (auto v : b.sp.rrtypes) sp.rr_types.push_back(static_cast<CDNS::RrTypes>((uint16_t)v));
  if (b.sp.flags.has) sp.storage_flags = static_cast<CDNS::StorageFlagsMask>((uint8_t)b.sp.flags.v);
  if (b.sp.c4.has) sp.client_address_prefix_ipv4 = (uint8_t)b.sp.c4.v;
  if (b.sp.c6.has) sp.client_address_prefix_ipv6 = (uint8_t)b.sp.c6.v;
  if (b.sp.s4.has) sp.server_address_prefix_ipv4 = (uint8_t)b.sp.s4.v;
  if (b.sp.s6.has) sp.server_address_prefix_ipv6 = (uint8_t)b.sp.s6.v;
  if (b.sp.sampling.has) sp.sampling_method = b.sp.sampling.v;
  if (b.sp.anonym.has) sp.anonymization_method = b.sp.anonym.v;
  if (b.has_cp) {
    CDNS::CollectionParameters cp;
    if (b.cp.query_timeout.has) cp.query_timeout = (uint64_t)b.cp.query_timeout.v;
    if (b.cp.skew_timeout.has) cp.skew_timeout = (uint64_t)b.cp.skew_timeout.v;
    if (b.cp.snaplen.has) cp.snaplen = (uint64_t)b.cp.snaplen.v;
    if (b.cp.promisc.has) cp.promisc = b.cp.promisc.v != 0;
    cp.interfaces = b.cp.interfaces;
    cp.server_address = b.cp.server_address;
    for (auto v : b.cp.vlan_ids) cp.vlan_ids.push_back((uint16_t)v);
    if (b.cp.filter.has) cp.filter = b.cp.filter.v;
    if (b.cp.generator_id.has) cp.generator_id = b.cp.generator_id.v;
    if (b.cp.host_id.has) cp.host_id = b.cp.host_id.v;
    o.collection_parameters = cp;
  }
  return o;
}
inline M::BlockP model_bp(const CDNS::BlockParameters& o) {
  M::BlockP b;
  auto& sp = o.storage_parameters;
  b.sp.tps = sp.ticks_per_second;
  b.sp.max_items = sp.max_block_items;
  b.sp.hints.qr = sp.storage_hints.query_response_hints;
  b.sp.hints.sig = sp.storage_hints.query_response_signature_hints;
  b.sp.hints.rr = sp.storage_hints.rr_hints;
  b.sp.hints.other = sp.storage_hints.other_data_hints;
  for (auto v : sp.opcodes) b.sp.opcodes.push_back((uint8_t)v);
  for (auto v : sp.rr_types) b.sp.rrtypes.push_back((uint16_t)v);
  if (sp.storage_flags) b.sp.flags.set((uint8_t)*sp.storage_flags);
  if (sp.client_address_prefix_ipv4) b.sp.c4.set(*sp.client_address_prefix_ipv4);
  if (sp.client_address_prefix_ipv6) b.sp.c6.set(*sp.client_address_prefix_ipv6);
  if (sp.server_address_prefix_ipv4) b.sp.s4.set(*sp.server_address_prefix_ipv4);
  if (sp.server_address_prefix_ipv6) b.sp.s6.set(*sp.server_address_prefix_ipv6);
  if (sp.sampling_method) b.sp.sampling.set(*sp.sampling_method);
  if (sp.anonymization_method) b.sp.anonym.set(*sp.anonymization_method);
  if (o.collection_parameters) {
    b.has_cp = true;
    auto& cp = *o.collection_parameters;
    if (cp.query_timeout) b.cp.query_timeout.set(*cp.query_timeout);
    if (cp.skew_timeout) b.cp.skew_timeout.set(*cp.skew_timeout);
    if (cp.snaplen) b.cp.snaplen.set(*cp.snaplen);
    if (cp.promisc) b.cp.promisc.set(*cp.promisc ? 1 : 0);
    b.cp.interfaces = cp.interfaces;
    b.cp.server_address = cp.server_address;
    for (auto v : cp.vlan_ids) b.cp.vlan_ids.push_back(v);
    if (cp.filter) b.cp.filter.set(*cp.filter);
    if (cp.generator_id) b.cp.generator_id.set(*cp.generator_id);
    if (cp.host_id) b.cp.host_id.set(*cp.host_id);
  }
  return b;
}
inline CDNS::FilePreamble lib_preamble(const M::Preamble& p) {
  std::vector<CDNS::BlockParameters> v;
  for (auto& b : p.bps) v.push_back(lib_bp(b));
  CDNS::FilePreamble fp(v);
  fp.m_major_format_version = (uint8_t)p.major;
  fp.m_minor_format_version = (uint8_t)p.minor;
  if (p.priv.has) fp.m_private_version = (uint8_t)p.priv.v; else fp.m_private_version = boost::none;
  return fp;
}
inline M::Preamble model_preamble(const CDNS::FilePreamble& fp) {
  M::Preamble p;
  p.major = fp.m_major_format_version;
  p.minor = fp.m_minor_format_version;
  if (fp.m_private_version) p.priv.set(*fp.m_private_version);
  for (auto& b : fp.m_block_parameters) p.bps.push_back(model_bp(b));
  return p;
}

// read one library block into the model (records resolved through the library's own accessors)
inline M::BlockM model_block(CDNS::CdnsBlockRead& blk) {
  M::BlockM b;
  b.bp_index = blk.get_block_parameters_index();
  b.has_bp_index = (bool)blk.m_block_preamble.block_parameters_index;
  b.has_earliest = true;
  b.earliest = ts(blk.m_block_preamble.earliest_time);
  b.stats = model_stats(blk.m_block_statistics);
  bool end = false;
  for (;;) {
    CDNS::GenericQueryResponse g = blk.read_generic_qr(end);
    if (end) break;
    b.qrs.push_back(model_qr(g));
  }
  for (;;) {
    CDNS::GenericAddressEventCount g = blk.read_generic_aec(end);
    if (end) break;
    b.aecs[model_aec(g).key()] += g.ae_count;
    b.aec_entries++;
  }
  for (;;) {
    CDNS::GenericMalformedMessage g = blk.read_generic_mm(end);
    if (end) break;
    b.mms.push_back(model_mm(g));
  }
  return b;
}

}  // namespace adapt
