// Structure-aware mutation of valid C-DNS files (C03): a generated plan of 1..k edits on the parsed
// CBOR tree (length/count fields, integers, indices, major types, additional information, nesting chains,
// subtree duplication / deletion / move, unknown members, bad names / addresses, time fields), followed by
// optional truncation and raw byte flips.  Output is arbitrary bytes that mostly still look like C-DNS.
#pragma once
#include <map>
#include "cbor_ref.hpp"
#include "chooser.hpp"
#include "harness.hpp"

namespace mut {
using cref::Node;

struct Stats {
  std::map<std::string, unsigned> kinds;
  std::string show() const { std::string o; for (auto& kv : kinds) o += kv.first + "x" + std::to_string(kv.second) + " "; return o.empty() ? "no edit" : o; }
  void classify(vf::Stats& st) const { for (auto& kv : kinds) st.cls("edit:" + kv.first); }
};
struct Override { bool has_count = false; uint64_t count = 0; bool has_ai = false; uint8_t ai = 0; bool has_major = false; uint8_t major = 0; bool widen = false; };
static const uint8_t RAW = 255;   // pseudo major: Node::str holds raw bytes to emit

static const uint64_t BOUND[] = {0ull, 1ull, 23ull, 24ull, 255ull, 256ull, 65535ull, 65536ull, 0xFFFFFFFFull, 0x100000000ull, 0x7FFFFFFFFFFFFFFFull, 0x8000000000000000ull, 0xFFFFFFFFFFFFFFFFull};

inline void emit(const Node& n, const std::map<const Node*, Override>& ov, std::string& o) {
  if (n.major == RAW) { o += n.str; return; }
  Override v;
  auto it = ov.find(&n);
  if (it != ov.end()) v = it->second;
  uint8_t major = v.has_major ? v.major : n.major;
  uint64_t natural = (n.major == cref::BSTR || n.major == cref::TSTR) ? n.str.size() : n.major == cref::ARR ? n.kids.size() : n.major == cref::MAP ? n.kids.size() / 2 : n.arg;
  uint64_t arg = v.has_count ? v.count : natural;
  if (v.has_ai) {
    o.push_back((char)((major << 5) | (v.ai & 31)));
    if (v.ai >= 24 && v.ai <= 27) { unsigned nb = 1u << (v.ai - 24); for (unsigned i = 0; i < nb; i++) o.push_back((char)((arg >> (8 * (nb - 1 - i))) & 0xFF)); }
  } else if (n.major == cref::SIMPLE && n.ai >= 25 && n.ai <= 27 && !v.has_count) cref::put_head(o, major, n.arg, n.ai);
  else if (v.widen) cref::put_head(o, major, arg, 27);
  else cref::put_head_min(o, major, arg);
  switch (n.major) {
    case cref::BSTR: case cref::TSTR: o += n.str; break;
    case cref::ARR: case cref::MAP: case cref::TAG: for (auto& k : n.kids) emit(k, ov, o); break;
    default: break;
  }
}

inline void collect(Node& n, std::vector<Node*>& all, std::vector<Node*>& ints, std::vector<Node*>& strs, std::vector<Node*>& conts) {
  all.push_back(&n);
  if (n.is_int()) ints.push_back(&n);
  if (n.major == cref::BSTR || n.major == cref::TSTR) strs.push_back(&n);
  if (n.major == cref::ARR || n.major == cref::MAP) conts.push_back(&n);
  for (auto& k : n.kids) collect(k, all, ints, strs, conts);
}

// nesting chain of `depth` levels around a small item, emitted directly as bytes (no recursion)
inline std::string nest_chain(vf::Chooser& c, size_t depth) {
  std::string o;
  uint64_t style = c.range(0, 7);   // 0 definite arrays, 1 indefinite arrays, 2 maps, 3 indefinite maps, 4 tags, 5 mixed, 6 / 7 indefinite byte / text strings as chunks of each other (malformed)
  std::string tail;
  if (style >= 6) { std::string o(depth, (char)(style == 6 ? 0x5F : 0x7F)); o.push_back((char)(style == 6 ? 0x41 : 0x61)); o.push_back('x'); if (c.coin()) o += std::string(depth, (char)0xFF); return o; }
  for (size_t i = 0; i < depth; i++) {
    uint64_t s = style == 5 ? (i * 7 + depth) % 5 : style;
    switch (s) {
      case 0: o.push_back((char)0x81); break;
      case 1: o.push_back((char)0x9F); tail.push_back((char)0xFF); break;
      case 2: o.push_back((char)0xA1); o.push_back((char)0x00); break;
      case 3: o.push_back((char)0xBF); o.push_back((char)0x00); tail.push_back((char)0xFF); break;
      default: o.push_back((char)0xC1); break;
    }
  }
  o.push_back((char)0x05);
  if (c.coin()) o += tail;   // sometimes the chain is left unterminated
  return o;
}
inline std::string bad_name(vf::Chooser& c) {
  std::string s;
  uint64_t m = c.range(0, 5);
  switch (m) {
    case 0: s = std::string("\x01" "a" "\x01" "b" "\x03", 5); break;                 // last label length points past the end
    case 1: s.push_back((char)c.range(1, 255)); break;                              // single length byte
    case 2: { unsigned n = (unsigned)c.range(1, 12); for (unsigned i = 0; i < n; i++) s.push_back((char)c.range(0, 255)); break; }
    case 3: s = std::string("\x3f", 1) + std::string(c.range(0, 70), 'x'); break;    // 63-byte label, maybe short
    case 4: s = std::string(c.range(0, 300), (char)c.range(0, 255)); break;
    default: { unsigned n = (unsigned)c.range(1, 40); for (unsigned i = 0; i < n; i++) { s.push_back((char)1); s.push_back('a'); } if (c.coin()) s.push_back('\0'); break; }
  }
  return s;
}

inline std::string mutate_file(vf::Chooser& c, const std::string& valid, unsigned size, Stats& st, int first_kind = -1) {
  Node root; std::string err;
  std::string out;
  if (!cref::parse_all(valid, root, err)) { st.kinds["unparsed_seed"]++; out = valid; }
  else {
    std::map<const Node*, Override> ov;
    unsigned nedits = (unsigned)c.range(1, 4);
    for (unsigned e = 0; e < nedits; e++) {
      std::vector<Node*> all, ints, strs, conts;
      collect(root, all, ints, strs, conts);
      uint64_t kind = (e == 0 && first_kind >= 0) ? (uint64_t)first_kind : c.range(0, 15);
      switch (kind) {
        case 0: {  // declared length / count of a string or container
          std::vector<Node*> cand = strs; cand.insert(cand.end(), conts.begin(), conts.end());
          if (cand.empty()) break;
          Node* n = cand[c.range(0, cand.size() - 1)];
          Override& o = ov[n]; o.has_count = true;
          uint64_t m = c.range(0, 2);
          uint64_t natural = (n->major == cref::BSTR || n->major == cref::TSTR) ? n->str.size() : n->major == cref::ARR ? n->kids.size() : n->kids.size() / 2;
          o.count = m == 0 ? BOUND[c.range(0, 12)] : m == 1 ? natural + c.range(1, 3) : (natural ? natural - 1 : 1);
          st.kinds["count"]++;
          break;
        }
        case 1: case 2: {  // integer -> boundary / small index-like value
          if (ints.empty()) break;
          Node* n = ints[c.range(0, ints.size() - 1)];
          uint64_t m = c.range(0, 3);
          if (m == 0) n->arg = BOUND[c.range(0, 12)]; else if (m == 1) n->arg = c.range(0, 40); else if (m == 2) n->arg = n->arg + c.range(1, 2); else { n->arg = c.uint_bits(64); }
          if (c.range(0, 5) == 0) n->major = n->major == cref::UINT ? cref::NINT : cref::UINT;
          if (c.range(0, 5) == 0) ov[n].widen = true;
          st.kinds["integer"]++;
          break;
        }
        case 3: {  // major type swapped
          Node* n = all[c.range(0, all.size() - 1)];
          Override& o = ov[n]; o.has_major = true; o.major = (uint8_t)c.range(0, 7);
          st.kinds["major"]++;
          break;
        }
        case 4: {  // additional information 28..31 (or another width)
          Node* n = all[c.range(0, all.size() - 1)];
          Override& o = ov[n]; o.has_ai = true; o.ai = (uint8_t)c.pick<int>({28, 29, 30, 31, 31, 24, 27});
          st.kinds["additional_info"]++;
          break;
        }
        case 5: {  // subtree replaced by a nesting chain
          Node* n = all[c.range(0, all.size() - 1)];
          size_t depth = (size_t)c.range(1, size >= 90 ? 200000 : size >= 60 ? 20000 : 2000);
          Node r; r.major = RAW; r.str = nest_chain(c, depth);
          ov.erase(n);
          *n = r;
          st.kinds[depth >= 1000 ? "deep_nesting" : "nesting"]++;
          break;
        }
        case 6: {  // duplicate / delete / move an element of a container
          if (conts.empty()) break;
          Node* p = conts[c.range(0, conts.size() - 1)];
          if (p->kids.empty()) break;
          size_t i = (size_t)c.range(0, p->kids.size() - 1);
          uint64_t m = c.range(0, 2);
          if (m == 0) { Node copy = p->kids[i]; p->kids.insert(p->kids.begin() + i, copy); }
          else if (m == 1) p->kids.erase(p->kids.begin() + i);
          else { Node x = p->kids[i]; p->kids.erase(p->kids.begin() + i); p->kids.insert(p->kids.begin() + c.range(0, p->kids.size()), x); }
          ov.clear();   // node addresses changed
          st.kinds["dup_del_move"]++;
          break;
        }
        case 7: {  // unknown member / extra element
          if (conts.empty()) break;
          Node* p = conts[c.range(0, conts.size() - 1)];
          cref::GenOpts go; go.max_depth = 2;
          if (p->major == cref::MAP) { p->kids.push_back(cref::mk_int((__int128)c.int_bits(16))); p->kids.push_back(cref::gen_item(c, go)); }
          else p->kids.push_back(cref::gen_item(c, go));
          ov.clear();
          st.kinds["extra_member"]++;
          break;
        }
        case 8: {  // malformed domain name / address
          if (strs.empty()) break;
          Node* n = strs[c.range(0, strs.size() - 1)];
          n->str = c.coin() ? bad_name(c) : std::string(c.range(0, 20), (char)c.range(0, 255));
          st.kinds["bad_name_or_address"]++;
          break;
        }
        case 9: {  // time related fields: ticks-per-second, earliest time, offsets
          // file[1] preamble -> key 3 -> sets -> key 0 storage parameters -> key 0 tps ; blocks -> key 0 preamble -> key 0 earliest
          uint64_t m = c.range(0, 3);
          uint64_t v = c.pick<uint64_t>({0ull, 1ull, 0xFFFFFFFFFFFFFFFFull, 0x8000000000000000ull, 0x7FFFFFFFFFFFFFFFull, 0x4000000000000001ull});
          bool done = false;
          if (m == 3 && root.kids.size() == 3) {
            // two cooperating lies: every tick rate AND every earliest time / record offset of every block get boundary values
            // (the arithmetic that combines them is only reached with both)
            uint64_t tps = c.pick<uint64_t>({0xFFFFFFFFFFFFFFFFull, 0x8000000000000000ull, 0x7FFFFFFFFFFFFFFFull, 1ull, 0ull, 0xFFFFFFFFFFFFFFFEull});
            Node& pre = root.kids[1];
            for (size_t i = 0; i + 1 < pre.kids.size(); i += 2) if (pre.kids[i].is_uint() && pre.kids[i].arg == 3)
              for (auto& bp : pre.kids[i + 1].kids) for (size_t j = 0; j + 1 < bp.kids.size(); j += 2) if (bp.kids[j].is_uint() && bp.kids[j].arg == 0)
                for (size_t k = 0; k + 1 < bp.kids[j + 1].kids.size(); k += 2) if (bp.kids[j + 1].kids[k].is_uint() && bp.kids[j + 1].kids[k].arg == 0) bp.kids[j + 1].kids[k + 1] = cref::mk_uint(tps);
            static const uint64_t OFF[] = {0x8000000000000000ull, 0x7FFFFFFFFFFFFFFFull, 0x8000000000000001ull, 0xFFFFFFFFFFFFFFFFull, 0ull, 1ull};
            for (auto& blk : root.kids[2].kids) for (size_t i = 0; i + 1 < blk.kids.size(); i += 2) {
              if (blk.kids[i].is_uint() && blk.kids[i].arg == 0 && c.coin()) {
                Node& bpre = blk.kids[i + 1];
                for (size_t j = 0; j + 1 < bpre.kids.size(); j += 2) if (bpre.kids[j].is_uint() && bpre.kids[j].arg == 0 && bpre.kids[j + 1].kids.size() == 2) { bpre.kids[j + 1].kids[0] = cref::mk_uint(OFF[c.range(0, 5)]); bpre.kids[j + 1].kids[1] = cref::mk_uint(OFF[c.range(0, 5)]); }
              }
              if (blk.kids[i].is_uint() && (blk.kids[i].arg == 3 || blk.kids[i].arg == 5))
                for (auto& item : blk.kids[i + 1].kids) for (size_t j = 0; j + 1 < item.kids.size(); j += 2) if (item.kids[j].is_uint() && item.kids[j].arg == 0) { item.kids[j + 1] = cref::mk_uint(OFF[c.range(0, 5)]); done = true; }
            }
            if (done) { ov.clear(); st.kinds["tick_rate_and_offsets"]++; }
            break;
          }
          if (root.kids.size() == 3) {
            if (m == 0) {
              Node& pre = root.kids[1];
              for (size_t i = 0; i + 1 < pre.kids.size() && !done; i += 2) if (pre.kids[i].is_uint() && pre.kids[i].arg == 3)
                for (auto& bp : pre.kids[i + 1].kids) for (size_t j = 0; j + 1 < bp.kids.size() && !done; j += 2) if (bp.kids[j].is_uint() && bp.kids[j].arg == 0)
                  for (size_t k = 0; k + 1 < bp.kids[j + 1].kids.size(); k += 2) if (bp.kids[j + 1].kids[k].is_uint() && bp.kids[j + 1].kids[k].arg == 0) { bp.kids[j + 1].kids[k + 1] = cref::mk_uint(v); done = true; break; }
            } else {
              for (auto& blk : root.kids[2].kids) for (size_t i = 0; i + 1 < blk.kids.size() && !done; i += 2) {
                if (m == 1 && blk.kids[i].is_uint() && blk.kids[i].arg == 0) {
                  Node& bpre = blk.kids[i + 1];
                  for (size_t j = 0; j + 1 < bpre.kids.size(); j += 2) if (bpre.kids[j].is_uint() && bpre.kids[j].arg == 0 && bpre.kids[j + 1].kids.size() == 2) { bpre.kids[j + 1].kids[c.range(0, 1)] = cref::mk_uint(v); done = true; break; }
                }
                if (m == 2 && blk.kids[i].is_uint() && (blk.kids[i].arg == 3 || blk.kids[i].arg == 5)) {
                  for (auto& item : blk.kids[i + 1].kids) for (size_t j = 0; j + 1 < item.kids.size(); j += 2) if (item.kids[j].is_uint() && item.kids[j].arg == 0) { item.kids[j + 1] = cref::mk_uint(v); done = true; break; }
                }
              }
            }
          }
          if (done) { ov.clear(); st.kinds["time_field"]++; }
          break;
        }
        case 10: {  // an index member pointing just past its table (any small integer set to a table size), or - several integers at once -
                    // to values that are valid for some other (larger) table of the file but perhaps not for their own
          if (ints.empty() || conts.empty()) break;
          if (c.coin()) {
            Node* n = ints[c.range(0, ints.size() - 1)];
            Node* t = conts[c.range(0, conts.size() - 1)];
            n->major = cref::UINT; n->arg = t->kids.size() + c.range(0, 1);
            st.kinds["index_past_table"]++;
          } else {
            unsigned k = (unsigned)c.range(2, 12);
            for (unsigned i = 0; i < k; i++) {
              Node* n = ints[c.range(0, ints.size() - 1)];
              Node* t = conts[c.range(0, conts.size() - 1)];
              if (t->kids.empty()) continue;
              n->major = cref::UINT; n->arg = c.range(0, t->kids.size() - 1);
            }
            st.kinds["indices_valid_for_sibling_tables"]++;
          }
          break;
        }
        case 11: {  // huge string: declared length large, actual content short (allocation by length field)
          if (strs.empty()) break;
          Node* n = strs[c.range(0, strs.size() - 1)];
          Override& o = ov[n]; o.has_count = true; o.count = c.pick<uint64_t>({0xFFFFFFFFull, 0x100000000ull, 0x7FFFFFFFFFFFFFFFull, 0xFFFFFFFFFFFFFFFFull, 0x10000000ull});
          st.kinds["huge_declared_length"]++;
          break;
        }
        case 12: {  // huge array count (reserve by count)
          if (conts.empty()) break;
          Node* n = conts[c.range(0, conts.size() - 1)];
          Override& o = ov[n]; o.has_count = true; o.count = c.pick<uint64_t>({0xFFFFFFFFull, 0x100000000ull, 0x7FFFFFFFFFFFFFFFull, 0xFFFFFFFFFFFFFFFFull, 0x10000000ull});
          st.kinds["huge_declared_count"]++;
          break;
        }
        case 13: {  // two cooperating lies: a huge max-block-items in every parameter set AND a huge declared item count of an item array
          bool done = false;
          uint64_t big = c.pick<uint64_t>({0x100000000ull, 0xFFFFFFFFFFFFFFFFull, 0x7FFFFFFFFFFFFFFFull, 0x1000000ull});
          if (root.kids.size() == 3) {
            Node& pre = root.kids[1];
            for (size_t i = 0; i + 1 < pre.kids.size(); i += 2) if (pre.kids[i].is_uint() && pre.kids[i].arg == 3)
              for (auto& bp : pre.kids[i + 1].kids) for (size_t j = 0; j + 1 < bp.kids.size(); j += 2) if (bp.kids[j].is_uint() && bp.kids[j].arg == 0)
                for (size_t k = 0; k + 1 < bp.kids[j + 1].kids.size(); k += 2) if (bp.kids[j + 1].kids[k].is_uint() && bp.kids[j + 1].kids[k].arg == 1) bp.kids[j + 1].kids[k + 1] = cref::mk_uint(big);
            ov.clear();
            for (auto& blk : root.kids[2].kids) for (size_t i = 0; i + 1 < blk.kids.size(); i += 2)
              if (blk.kids[i].is_uint() && (blk.kids[i].arg == 3 || blk.kids[i].arg == 5 || blk.kids[i].arg == 4) && blk.kids[i + 1].major == cref::ARR && c.coin()) {
                Override& o = ov[&blk.kids[i + 1]]; o.has_count = true; o.count = c.pick<uint64_t>({0x100000000ull, 0xFFFFFFFFull, 0x7FFFFFFFFFFFFFFFull, 0x4000000ull});
                done = true;
              }
          }
          if (done) st.kinds["huge_count_with_huge_max_block_items"]++;
          break;
        }
        case 14: {  // unknown member whose value is a string / array / map head declaring 2^63..2^64-1 (a skipped item, never stored): length arithmetic of skip paths
          std::vector<Node*> maps;
          for (Node* n : conts) if (n->major == cref::MAP) maps.push_back(n);
          if (maps.empty()) break;
          Node* p = maps[c.range(0, maps.size() - 1)];
          uint64_t m = c.range(0, 5) % 5;
          // m == 0: lengths for which position + head + length wraps around 2^64 to a place at or shortly before the item (2^64 - d, d small)
          uint64_t len = m == 0 ? 0xFFFFFFFFFFFFFFFFull - (c.coin() ? c.range(8, 12) : c.range(0, 40)) : m == 1 ? 0x8000000000000000ull + c.range(0, 3) : m == 2 ? 0x7FFFFFFFFFFFFFFFull - c.range(0, 3) : m == 3 ? 0xFFFFFFFFFFFF0000ull + c.range(0, 0xFFFF) : c.uint_bits(64) | 0x8000000000000000ull;
          Node v; v.major = RAW;
          uint8_t major = (uint8_t)c.pick<int>({cref::BSTR, cref::TSTR, cref::BSTR, cref::TSTR, cref::ARR, cref::MAP});
          cref::put_head(v.str, major, len, 27);
          size_t tail = (size_t)c.range(0, 3) == 0 ? (size_t)c.range(0, 300) : 0;
          for (size_t i = 0; i < tail; i++) v.str.push_back((char)c.range(0, 255));
          p->kids.insert(p->kids.begin() + 2 * c.range(0, p->kids.size() / 2), {cref::mk_int((__int128)(c.coin() ? c.range(40, 300) : c.range(0, 40))), v});
          ov.clear();
          st.kinds["huge_skipped_item"]++;
          break;
        }
        default: st.kinds["none"]++; break;
      }
    }
    // emit: definite array(3), as the exporter does, with an indefinite block array
    if (root.kids.size() == 3 && root.major == cref::ARR && ov.find(&root) == ov.end() && root.kids[2].major == cref::ARR && ov.find(&root.kids[2]) == ov.end()) {
      cref::put_head_min(out, cref::ARR, 3);
      emit(root.kids[0], ov, out); emit(root.kids[1], ov, out);
      out.push_back((char)0x9F);
      for (auto& b : root.kids[2].kids) emit(b, ov, out);
      out.push_back((char)0xFF);
    } else emit(root, ov, out);
  }
  // truncation / raw byte flips
  uint64_t post = c.range(0, 5);
  if (post == 0 && !out.empty()) { out.resize((size_t)c.range(0, out.size() - 1)); st.kinds["truncation"]++; }
  else if (post == 1 && !out.empty()) {
    unsigned n = (unsigned)c.range(1, 4);
    for (unsigned i = 0; i < n; i++) { size_t p = (size_t)c.range(0, out.size() - 1); out[p] = (char)(c.coin() ? c.range(0, 255) : (out[p] ^ (1 << c.range(0, 7)))); }
    st.kinds["byte_flip"]++;
  }
  return out;
}

}  // namespace mut
