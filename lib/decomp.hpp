// Independent strict decompression (zlib inflate / liblzma stream decoder used directly, not
// through the library under test): exactly one complete gzip member / xz stream, nothing after it.
#pragma once
#include <lzma.h>
#include <zlib.h>
#include <fstream>
#include <sstream>
#include <string>

namespace vf {

inline bool read_file(const std::string& path, std::string& out) {
  std::ifstream in(path, std::ios::binary);
  if (!in) return false;
  std::ostringstream ss;
  ss << in.rdbuf();
  out = ss.str();
  return true;
}
inline bool write_file(const std::string& path, const std::string& data) {
  std::ofstream o(path, std::ios::binary | std::ios::trunc);
  if (!o) return false;
  o.write(data.data(), data.size());
  return (bool)o;
}

inline bool gunzip_strict(const std::string& in, std::string& out, std::string& err) {
  out.clear();
  z_stream z;
  memset(&z, 0, sizeof z);
  if (inflateInit2(&z, 31) != Z_OK) { err = "inflateInit2"; return false; }
  z.next_in = (Bytef*)in.data();
  z.avail_in = (uInt)in.size();
  std::string buf(1 << 16, '\0');
  int r;
  do {
    z.next_out = (Bytef*)&buf[0];
    z.avail_out = (uInt)buf.size();
    r = inflate(&z, Z_NO_FLUSH);
    if (r != Z_OK && r != Z_STREAM_END) {
      err = std::string("gzip stream damaged or incomplete (inflate=") + std::to_string(r) + ")";
      inflateEnd(&z);
      return false;
    }
    out.append(buf.data(), buf.size() - z.avail_out);
    if (r == Z_OK && z.avail_in == 0 && z.avail_out != 0) { err = "gzip stream incomplete (no trailer)"; inflateEnd(&z); return false; }
  } while (r != Z_STREAM_END);
  bool extra = z.avail_in != 0;
  inflateEnd(&z);
  if (extra) { err = "bytes after the end of the gzip member"; return false; }
  return true;
}

inline bool unxz_strict(const std::string& in, std::string& out, std::string& err) {
  out.clear();
  lzma_stream s = LZMA_STREAM_INIT;
  if (lzma_stream_decoder(&s, UINT64_MAX, 0) != LZMA_OK) { err = "lzma_stream_decoder"; return false; }
  s.next_in = (const uint8_t*)in.data();
  s.avail_in = in.size();
  std::string buf(1 << 16, '\0');
  lzma_ret r;
  do {
    s.next_out = (uint8_t*)&buf[0];
    s.avail_out = buf.size();
    r = lzma_code(&s, s.avail_in == 0 ? LZMA_FINISH : LZMA_RUN);
    if (r != LZMA_OK && r != LZMA_STREAM_END) {
      err = std::string("xz stream damaged or incomplete (lzma_code=") + std::to_string((int)r) + ")";
      lzma_end(&s);
      return false;
    }
    out.append(buf.data(), buf.size() - s.avail_out);
  } while (r != LZMA_STREAM_END);
  bool extra = s.avail_in != 0;
  lzma_end(&s);
  if (extra) { err = "bytes after the end of the xz stream"; return false; }
  return true;
}

// comp: 0 none, 1 gzip, 2 xz.  An empty input is an empty output for every mode ("no data at all").
inline bool decompress(int comp, const std::string& in, std::string& out, std::string& err) {
  if (comp == 0) { out = in; return true; }
  if (comp == 1) return gunzip_strict(in, out, err);
  return unxz_strict(in, out, err);
}

}  // namespace vf
