// Independent CBOR reference (RFC 8949).  Includes no file of the library under test.
//  * strict parser -> tree (rejects everything RFC 8949 calls not well-formed)
//  * reference encoder: preferred encoding, or any equivalent encoding under a rewrite plan
#pragma once
#include <cstdint>
#include <functional>
#include <string>
#include <vector>
#include "chooser.hpp"

namespace cref {

enum Major : uint8_t { UINT = 0, NINT = 1, BSTR = 2, TSTR = 3, ARR = 4, MAP = 5, TAG = 6, SIMPLE = 7 };

struct Node {
  uint8_t major = 0;
  uint64_t arg = 0;        // value / length / count / tag number / simple value or float bits
  uint8_t ai = 0;          // additional information as found (head width); 31 = indefinite
  bool indef = false;
  std::string str;         // BSTR/TSTR: the (concatenated) content
  std::vector<std::string> chunks;  // for indefinite strings: chunk contents as found
  std::vector<Node> kids;  // ARR: elements; MAP: k0,v0,k1,v1..; TAG: one child
  size_t begin = 0, end = 0;

  bool is_uint() const { return major == UINT; }
  bool is_int() const { return major == UINT || major == NINT; }
  bool is_map() const { return major == MAP; }
  bool is_arr() const { return major == ARR; }
  // integer value as __int128
  __int128 ival() const { return major == UINT ? (__int128)arg : -1 - (__int128)arg; }
  size_t map_pairs() const { return kids.size() / 2; }
};

inline Node mk_uint(uint64_t v) { Node n; n.major = UINT; n.arg = v; return n; }
inline Node mk_int(__int128 v) { Node n; if (v >= 0) { n.major = UINT; n.arg = (uint64_t)v; } else { n.major = NINT; n.arg = (uint64_t)(-1 - v); } return n; }
inline Node mk_bstr(const std::string& s) { Node n; n.major = BSTR; n.str = s; n.arg = s.size(); return n; }
inline Node mk_tstr(const std::string& s) { Node n; n.major = TSTR; n.str = s; n.arg = s.size(); return n; }
inline Node mk_arr(std::vector<Node> k = {}) { Node n; n.major = ARR; n.kids = std::move(k); n.arg = n.kids.size(); return n; }
inline Node mk_map(std::vector<Node> kv = {}) { Node n; n.major = MAP; n.kids = std::move(kv); n.arg = n.kids.size() / 2; return n; }
inline Node mk_simple(uint8_t v) { Node n; n.major = SIMPLE; n.arg = v; n.ai = v < 24 ? v : 24; return n; }
inline Node mk_bool(bool b) { return mk_simple(b ? 21 : 20); }
inline Node mk_tag(uint64_t t, Node c) { Node n; n.major = TAG; n.arg = t; n.kids.push_back(std::move(c)); return n; }
inline Node mk_float(unsigned width_ai /*25,26,27*/, uint64_t bits) { Node n; n.major = SIMPLE; n.ai = (uint8_t)width_ai; n.arg = bits; return n; }

// ---- strict parser -----------------------------------------------------------------------
struct Parser {
  const std::string& in;
  size_t pos = 0;
  std::string err;
  size_t max_depth;
  explicit Parser(const std::string& s, size_t maxd = 2000) : in(s), max_depth(maxd) {}

  bool fail(const std::string& m) { if (err.empty()) err = m + " at offset " + std::to_string(pos); return false; }

  bool head(uint8_t& major, uint8_t& ai, uint64_t& arg) {
    if (pos >= in.size()) return fail("premature end (head)");
    uint8_t b = (uint8_t)in[pos++];
    major = b >> 5; ai = b & 31; arg = 0;
    if (ai < 24) { arg = ai; return true; }
    if (ai >= 28 && ai <= 30) return fail("reserved additional info");
    if (ai == 31) return true;
    unsigned n = 1u << (ai - 24);
    if (pos + n > in.size()) { pos = in.size(); return fail("premature end (argument)"); }
    for (unsigned i = 0; i < n; i++) arg = (arg << 8) | (uint8_t)in[pos++];
    return true;
  }

  bool item(Node& n, size_t depth) {
    if (depth > max_depth) return fail("nesting too deep for reference parser");
    n = Node();
    n.begin = pos;
    uint8_t major, ai; uint64_t arg;
    if (!head(major, ai, arg)) return false;
    n.major = major; n.ai = ai; n.arg = arg;
    switch (major) {
      case UINT: case NINT:
        if (ai == 31) return fail("indefinite integer");
        break;
      case BSTR: case TSTR:
        if (ai == 31) {
          n.indef = true;
          for (;;) {
            if (pos >= in.size()) return fail("premature end (chunks)");
            if ((uint8_t)in[pos] == 0xFF) { pos++; break; }
            uint8_t cm, cai; uint64_t carg;
            if (!head(cm, cai, carg)) return false;
            if (cm != major) return fail("chunk of wrong major type");
            if (cai == 31) return fail("indefinite chunk inside indefinite string");
            if (carg > in.size() - pos) { pos = in.size(); return fail("premature end (chunk data)"); }
            n.chunks.push_back(in.substr(pos, carg));
            n.str += n.chunks.back();
            pos += carg;
          }
          n.arg = n.str.size();
        } else {
          if (arg > in.size() - pos) { pos = in.size(); return fail("premature end (string data)"); }
          n.str = in.substr(pos, arg);
          pos += arg;
        }
        break;
      case ARR: case MAP: {
        unsigned per = major == MAP ? 2 : 1;
        if (ai == 31) {
          n.indef = true;
          for (;;) {
            if (pos >= in.size()) return fail("premature end (indefinite container)");
            if ((uint8_t)in[pos] == 0xFF) { pos++; break; }
            for (unsigned k = 0; k < per; k++) {
              if (k == 1 && pos < in.size() && (uint8_t)in[pos] == 0xFF) return fail("break between map key and value");
              n.kids.emplace_back();
              if (!item(n.kids.back(), depth + 1)) return false;
            }
          }
          n.arg = n.kids.size() / per;
        } else {
          if (arg > (in.size() - pos)) { return fail("premature end (container shorter than declared)"); }
          n.kids.reserve(arg * per);
          for (uint64_t i = 0; i < arg * per; i++) {
            n.kids.emplace_back();
            if (!item(n.kids.back(), depth + 1)) return false;
          }
        }
        break;
      }
      case TAG:
        if (ai == 31) return fail("indefinite tag");
        n.kids.emplace_back();
        if (!item(n.kids.back(), depth + 1)) return false;
        break;
      case SIMPLE:
        if (ai == 31) return fail("unexpected break");
        if (ai == 24 && arg < 32) return fail("two-byte simple value < 32");
        break;
    }
    n.end = pos;
    return true;
  }
};

// parse exactly one item covering the whole input
inline bool parse_all(const std::string& in, Node& out, std::string& err) {
  Parser p(in);
  if (!p.item(out, 0)) { err = p.err; return false; }
  if (p.pos != in.size()) { err = "trailing bytes after data item at offset " + std::to_string(p.pos); return false; }
  return true;
}
// parse one item starting at offset; returns end offset or npos
inline size_t parse_one(const std::string& in, size_t off, Node& out, std::string& err) {
  Parser p(in);
  p.pos = off;
  if (!p.item(out, 0)) { err = p.err; return std::string::npos; }
  return p.pos;
}

// ---- reference encoder -------------------------------------------------------------------
inline unsigned min_ai(uint64_t v) { return v < 24 ? (unsigned)v : v <= 0xFF ? 24 : v <= 0xFFFF ? 25 : v <= 0xFFFFFFFFull ? 26 : 27; }
inline void put_head(std::string& o, uint8_t major, uint64_t v, unsigned ai /* 0..23 direct, 24..27 width */) {
  if (ai < 24) { o.push_back((char)((major << 5) | (uint8_t)v)); return; }
  o.push_back((char)((major << 5) | ai));
  unsigned n = 1u << (ai - 24);
  for (unsigned i = 0; i < n; i++) o.push_back((char)((v >> (8 * (n - 1 - i))) & 0xFF));
}
inline void put_head_min(std::string& o, uint8_t major, uint64_t v) {
  unsigned ai = min_ai(v);
  put_head(o, major, v, ai);
}

// well-formed nesting chain of `depth` levels around the integer 5, written directly as bytes (no tree, no recursion):
// definite / indefinite arrays, definite / indefinite maps (key 0), tags, or a mixture
inline std::string deep_chain(vf::Chooser& c, size_t depth) {
  std::string o, tail;
  uint64_t style = c.range(0, 5);
  for (size_t i = 0; i < depth; i++) {
    uint64_t s = style == 5 ? (i * 7 + depth) % 5 : style;
    switch (s) {
      case 0: o.push_back((char)0x81); break;
      case 1: o.push_back((char)0x9F); tail.push_back((char)0xFF); break;
      case 2: o.push_back((char)0xA1); o.push_back((char)0x00); break;
      case 3: o.push_back((char)0xBF); o.push_back((char)0x00); tail.push_back((char)0xFF); break;
      default: o.push_back((char)0xC1); break;
    }
  }
  o.push_back((char)0x05);
  return o + tail;
}

// preferred (shortest, definite) encoding
inline void encode(const Node& n, std::string& o) {
  switch (n.major) {
    case UINT: case NINT: put_head_min(o, n.major, n.arg); break;
    case BSTR: case TSTR: put_head_min(o, n.major, n.str.size()); o += n.str; break;
    case ARR: put_head_min(o, ARR, n.kids.size()); for (auto& k : n.kids) encode(k, o); break;
    case MAP: put_head_min(o, MAP, n.kids.size() / 2); for (auto& k : n.kids) encode(k, o); break;
    case TAG: put_head_min(o, TAG, n.arg); encode(n.kids[0], o); break;
    case SIMPLE:
      if (n.ai >= 25 && n.ai <= 27) put_head(o, SIMPLE, n.arg, n.ai);       // floats keep their width
      else put_head_min(o, SIMPLE, n.arg);
      break;
  }
}
inline std::string encode(const Node& n) { std::string o; encode(n, o); return o; }

// "as found" encoding: reproduces head widths / indefiniteness / chunking recorded by the parser
inline void encode_as_found(const Node& n, std::string& o) {
  auto hd = [&](uint8_t major, uint64_t v) {
    unsigned ai = n.ai;
    if (ai < 24) ai = min_ai(v) < 24 ? (unsigned)v : min_ai(v);
    else if (ai <= 27 && min_ai(v) > ai) ai = min_ai(v);
    put_head(o, major, v, ai);
  };
  switch (n.major) {
    case UINT: case NINT: hd(n.major, n.arg); break;
    case BSTR: case TSTR:
      if (n.indef) {
        o.push_back((char)((n.major << 5) | 31));
        for (auto& c : n.chunks) { put_head_min(o, n.major, c.size()); o += c; }
        o.push_back((char)0xFF);
      } else { hd(n.major, n.str.size()); o += n.str; }
      break;
    case ARR: case MAP:
      if (n.indef) { o.push_back((char)((n.major << 5) | 31)); for (auto& k : n.kids) encode_as_found(k, o); o.push_back((char)0xFF); }
      else { hd(n.major, n.major == MAP ? n.kids.size() / 2 : n.kids.size()); for (auto& k : n.kids) encode_as_found(k, o); }
      break;
    case TAG: hd(TAG, n.arg); encode_as_found(n.kids[0], o); break;
    case SIMPLE:
      if (n.ai >= 25 && n.ai <= 27) put_head(o, SIMPLE, n.arg, n.ai);
      else put_head_min(o, SIMPLE, n.arg);
      break;
  }
}

// ---- generator of arbitrary well-formed items (full RFC 8949 grammar) ---------------------
struct GenOpts {
  unsigned max_depth = 4;
  unsigned max_len = 6;      // container length / chunks
  unsigned max_str = 40;
  bool text_valid_utf8 = true;
};
inline std::string gen_text(vf::Chooser& c, unsigned maxlen) {
  static const char* pool[] = {"", "a", "C-DNS", "\xC3\xA9", "\xE2\x82\xAC", "\xF0\x9F\x98\x80", "x.y", "0123456789abcdef0123456789"};
  std::string s;
  unsigned parts = (unsigned)c.range(0, 3);
  for (unsigned i = 0; i < parts && s.size() < maxlen; i++) s += pool[c.range(0, 7)];
  return s;
}
inline Node gen_item(vf::Chooser& c, const GenOpts& o, unsigned depth = 0) {
  uint64_t k = c.range(0, depth >= o.max_depth ? 5 : 8);
  switch (k) {
    case 0: return mk_uint(c.uint_bits(64));
    case 1: { Node n; n.major = NINT; n.arg = c.uint_bits(64); return n; }
    case 2: return mk_bstr(c.bytes(o.max_str));
    case 3: return mk_tstr(gen_text(c, o.max_str));
    case 4: {  // simple / float
      uint64_t m = c.range(0, 6);
      if (m == 0) return mk_bool(false);
      if (m == 1) return mk_bool(true);
      if (m == 2) return mk_simple(22);
      if (m == 3) return mk_simple(23);
      if (m == 4) return mk_simple((uint8_t)c.pick<int>({0, 19, 32, 100, 255}));
      if (m == 5) return mk_float((unsigned)c.range(25, 27), c.uint_bits(16));
      return mk_float(27, c.uint_bits(64));
    }
    case 5: return mk_uint(c.range(0, 23));
    case 6: { Node n = mk_arr(); unsigned len = (unsigned)c.range(0, o.max_len); for (unsigned i = 0; i < len; i++) n.kids.push_back(gen_item(c, o, depth + 1)); n.arg = n.kids.size(); return n; }
    case 7: { Node n = mk_map(); unsigned len = (unsigned)c.range(0, o.max_len); for (unsigned i = 0; i < 2 * len; i++) n.kids.push_back(gen_item(c, o, depth + 1)); n.arg = len; return n; }
    default: return mk_tag(c.uint_bits(64), gen_item(c, o, depth + 1));
  }
}

// ---- rewrite plan: emit an RFC-8949-equivalent encoding ----------------------------------
struct RwStats {
  uint64_t widened = 0, indef_cont = 0, chunked = 0, permuted = 0, inserted = 0, nodes = 0;
  uint64_t total() const { return widened + indef_cont + chunked + permuted + inserted; }
};
struct RwOpts {
  unsigned p_num = 1, p_den = 4;     // per-node probability of applying a rewrite of each kind
  bool permute_maps = true;
  bool insert_unknown = true;        // only into maps flagged by `is_cdns_map`
  bool chunk_text_at_utf8 = true;
  unsigned unknown_depth = 3;
  bool big_unknown = false;          // unknown values may be byte/text strings of 66 000 .. 140 000 bytes (chunked or not)
};

inline size_t utf8_boundary_before(const std::string& s, size_t i) {
  while (i > 0 && i < s.size() && (((unsigned char)s[i]) & 0xC0) == 0x80) i--;
  return i;
}

// `unknown_ok(node)` says whether unknown-key members may be inserted into this map node.
inline void encode_rw(const Node& n, std::string& o, vf::Chooser& c, const RwOpts& ro, RwStats& rs,
                      const std::function<bool(const Node&)>& unknown_ok) {
  rs.nodes++;
  auto hit = [&]() { return c.prob(ro.p_num, ro.p_den); };
  auto head = [&](uint8_t major, uint64_t v) {
    unsigned ai = min_ai(v);
    if (hit()) {
      unsigned lo = ai < 24 ? 24 : ai + 1;
      if (lo <= 27) { ai = (unsigned)c.range(lo, 27); rs.widened++; }
    }
    put_head(o, major, v, ai < 24 ? (unsigned)v : ai);
    if (ai < 24 && v >= 24) abort();
  };
  switch (n.major) {
    case UINT: case NINT: head(n.major, n.arg); break;
    case BSTR: case TSTR:
      if (hit()) {
        rs.chunked++;
        o.push_back((char)((n.major << 5) | 31));
        unsigned nch = (unsigned)c.range(0, 3);
        size_t pos = 0;
        for (unsigned i = 0; i < nch; i++) {
          size_t take = (i + 1 == nch) ? n.str.size() - pos : (size_t)c.range(0, n.str.size() - pos);
          if (n.major == TSTR && ro.chunk_text_at_utf8) take = utf8_boundary_before(n.str, pos + take) - pos;
          head(n.major, take);
          o.append(n.str, pos, take);
          pos += take;
        }
        if (pos < n.str.size()) { head(n.major, n.str.size() - pos); o.append(n.str, pos, std::string::npos); }
        o.push_back((char)0xFF);
      } else { head(n.major, n.str.size()); o += n.str; }
      break;
    case ARR: {
      bool ind = hit();
      if (ind) { rs.indef_cont++; o.push_back((char)((ARR << 5) | 31)); } else head(ARR, n.kids.size());
      for (auto& k : n.kids) encode_rw(k, o, c, ro, rs, unknown_ok);
      if (ind) o.push_back((char)0xFF);
      break;
    }
    case MAP: {
      size_t np = n.kids.size() / 2;
      std::vector<size_t> order(np);
      for (size_t i = 0; i < np; i++) order[i] = i;
      if (ro.permute_maps && np > 1 && hit()) {
        rs.permuted++;
        for (size_t i = np - 1; i > 0; i--) { size_t j = (size_t)c.range(0, i); std::swap(order[i], order[j]); }
      }
      // unknown members: list of (position, encoded pair)
      std::vector<std::pair<size_t, std::string>> extra;
      if (ro.insert_unknown && unknown_ok && unknown_ok(n) && hit()) {
        unsigned cnt = (unsigned)c.range(1, 2);
        for (unsigned i = 0; i < cnt; i++) {
          std::string e;
          // unknown integer key: |key| >= 64 so it never collides with RFC 8618 or library keys.  One third of the keys are
          // "aliases": they agree with an assigned key in their low 8/16/32 bits (k + 256*m, k + 2^16*m, k + 2^32*m and the
          // negative counterparts), which a reader that narrows the key would confuse with a known member.
          uint64_t km = c.range(0, 5);
          if (km == 4) {
            static const uint64_t STEP[] = {256ull, 65536ull, 0x100000000ull, 0x10000000000ull};
            uint64_t st = STEP[c.range(0, 3)];
            put_head_min(e, UINT, c.range(0, 16) + st * (c.range(1, 3) + (uint64_t)i * 4));
          } else if (km == 5) {
            static const uint64_t STEP[] = {256ull, 65536ull, 0x100000000ull};
            uint64_t st = STEP[c.range(0, 2)];
            // key = -(st*m) + k  ->  CBOR argument = -1 - key
            uint64_t mag = st * (c.range(1, 3) + (uint64_t)i * 4) - c.range(0, 16);
            put_head_min(e, NINT, mag - 1);
          }
          else if (km <= 1) put_head_min(e, UINT, 64 + c.range(0, 1000) + (uint64_t)i * 2000);
          else put_head_min(e, NINT, 63 + c.range(0, 1000) + (uint64_t)i * 2000);
          GenOpts go; go.max_depth = ro.unknown_depth < 3 ? ro.unknown_depth : 3;
          Node v = gen_item(c, go);
          if (ro.big_unknown && c.coin()) {
            size_t len = (size_t)c.pick<int>({66000, 70000, 131070, 140000});
            std::string big(len, 'u');
            for (size_t bi = 0; bi < len; bi += 97) big[bi] = (char)('A' + (bi / 97) % 26);
            v = c.coin() ? mk_bstr(big) : mk_tstr(big);
          }
          // deep nesting is produced as a linear chain (a bushy tree of that depth would be exponential)
          for (unsigned dpt = 3; dpt < ro.unknown_depth; dpt++) {
            uint64_t w = c.range(0, 2);
            v = w == 0 ? mk_arr({v}) : w == 1 ? mk_map({mk_uint(dpt), v}) : mk_tag(dpt, v);
          }
          RwStats dummy;
          RwOpts inner = ro; inner.insert_unknown = false;
          encode_rw(v, e, c, inner, dummy, nullptr);
          extra.emplace_back((size_t)c.range(0, np), e);
          rs.inserted++;
        }
      }
      bool ind = hit();
      if (ind) { rs.indef_cont++; o.push_back((char)((MAP << 5) | 31)); } else head(MAP, np + extra.size());
      for (size_t i = 0; i <= np; i++) {
        for (auto& ex : extra) if (ex.first == i) o += ex.second;
        if (i < np) {
          encode_rw(n.kids[2 * order[i]], o, c, ro, rs, unknown_ok);
          encode_rw(n.kids[2 * order[i] + 1], o, c, ro, rs, unknown_ok);
        }
      }
      if (ind) o.push_back((char)0xFF);
      break;
    }
    case TAG: head(TAG, n.arg); encode_rw(n.kids[0], o, c, ro, rs, unknown_ok); break;
    case SIMPLE:
      if (n.ai >= 25 && n.ai <= 27) put_head(o, SIMPLE, n.arg, n.ai);
      else put_head_min(o, SIMPLE, n.arg);
      break;
  }
}

// RFC 8618: block-parameters-index is optional with default 0.  Removes the member from block preambles where it is 0
// (a semantics-preserving rewrite of a C-DNS file tree); returns the number of removals.
inline unsigned drop_default_bp_index(Node& root, vf::Chooser& c) {
  unsigned n = 0;
  if (root.major != ARR || root.kids.size() != 3 || root.kids[2].major != ARR) return 0;
  for (auto& blk : root.kids[2].kids) {
    if (blk.major != MAP) continue;
    for (size_t i = 0; i + 1 < blk.kids.size(); i += 2) {
      if (!(blk.kids[i].is_uint() && blk.kids[i].arg == 0 && blk.kids[i + 1].major == MAP)) continue;
      Node& pre = blk.kids[i + 1];
      for (size_t j = 0; j + 1 < pre.kids.size(); j += 2) {
        if (pre.kids[j].is_uint() && pre.kids[j].arg == 1 && pre.kids[j + 1].is_uint() && pre.kids[j + 1].arg == 0 && c.coin()) {
          pre.kids.erase(pre.kids.begin() + j, pre.kids.begin() + j + 2);
          pre.arg = pre.kids.size() / 2;
          n++;
          break;
        }
      }
    }
  }
  return n;
}

// Repeats address-event-count items: a copy of an item with the same type / code / transport flags / address and a different
// count is added to the same array, as a producer that flushes its counters more than once per block writes them (RFC 8618 does
// not forbid it).  Returns the number of items added.
inline unsigned split_aec_items(Node& root, vf::Chooser& c) {
  unsigned n = 0;
  if (root.major != ARR || root.kids.size() != 3 || root.kids[2].major != ARR) return 0;
  for (auto& blk : root.kids[2].kids) {
    if (blk.major != MAP) continue;
    for (size_t i = 0; i + 1 < blk.kids.size(); i += 2) {
      if (!(blk.kids[i].is_uint() && blk.kids[i].arg == 4 && blk.kids[i + 1].major == ARR)) continue;
      Node& arr = blk.kids[i + 1];
      size_t orig = arr.kids.size();
      for (size_t k = 0; k < orig; k++) {
        if (arr.kids[k].major != MAP || !c.coin()) continue;
        Node second = arr.kids[k];
        bool changed = false;
        for (size_t j = 0; j + 1 < second.kids.size(); j += 2)
          if (second.kids[j].is_uint() && second.kids[j].arg == 4 && second.kids[j + 1].is_uint() && second.kids[j + 1].arg < (1ull << 62)) { second.kids[j + 1].arg += 1 + c.range(0, 5); changed = true; }
        if (!changed) continue;
        arr.kids.push_back(second);
        n++;
      }
      arr.arg = arr.kids.size();
    }
  }
  return n;
}

// ---- pretty printer (diagnostic-notation-like, truncated) ---------------------------------
inline void diag(const Node& n, std::string& o, size_t limit = 600) {
  if (o.size() > limit) return;
  static const char* H = "0123456789abcdef";
  switch (n.major) {
    case UINT: o += std::to_string(n.arg); break;
    case NINT: o += "-"; { unsigned __int128 v = (unsigned __int128)n.arg + 1; std::string d; while (v) { d.insert(d.begin(), (char)('0' + (int)(v % 10))); v /= 10; } o += d; } break;
    case BSTR: o += "h'"; for (size_t i = 0; i < n.str.size() && i < 24; i++) { o += H[(unsigned char)n.str[i] >> 4]; o += H[n.str[i] & 15]; } if (n.str.size() > 24) o += ".."; o += "'"; break;
    case TSTR: o += "\"" + n.str.substr(0, 24) + "\""; break;
    case ARR: o += n.indef ? "[_ " : "["; for (size_t i = 0; i < n.kids.size(); i++) { if (i) o += ","; diag(n.kids[i], o, limit); } o += "]"; break;
    case MAP: o += n.indef ? "{_ " : "{"; for (size_t i = 0; i + 1 < n.kids.size(); i += 2) { if (i) o += ","; diag(n.kids[i], o, limit); o += ":"; diag(n.kids[i + 1], o, limit); } o += "}"; break;
    case TAG: o += std::to_string(n.arg) + "("; diag(n.kids[0], o, limit); o += ")"; break;
    case SIMPLE: if (n.ai >= 25 && n.ai <= 27) o += "float" + std::to_string(8 << (n.ai - 24)) + "(" + std::to_string(n.arg) + ")"; else if (n.arg == 20) o += "false"; else if (n.arg == 21) o += "true"; else if (n.arg == 22) o += "null"; else if (n.arg == 23) o += "undefined"; else o += "simple(" + std::to_string(n.arg) + ")"; break;
  }
}
inline std::string diag(const Node& n) { std::string o; diag(n, o); return o; }

}  // namespace cref
