// Plain value model of C-DNS content, independent of the library under test.
// Records are field maps (field id -> value) so that projection by storage hints, comparison and
// rendering are generic.  Field ids below are the framework's own; the mapping to RFC 8618 map keys
// lives in cdns_ref.hpp, the mapping to library structs in lib_adapter.hpp.
#pragma once
#include <cstdint>
#include <map>
#include <string>
#include <vector>

namespace model {

typedef __int128 i128;

inline std::string i128s(i128 v) {
  if (v == 0) return "0";
  bool neg = v < 0;
  unsigned __int128 u = neg ? (unsigned __int128)(-(v + 1)) + 1 : (unsigned __int128)v;
  std::string d;
  while (u) { d.insert(d.begin(), (char)('0' + (int)(u % 10))); u /= 10; }
  return neg ? "-" + d : d;
}
inline std::string hexs(const std::string& s) {
  static const char* H = "0123456789abcdef";
  std::string o;
  for (unsigned char c : s) { o += H[c >> 4]; o += H[c & 15]; }
  return o;
}

struct Ts {
  uint64_t secs = 0, ticks = 0;
  bool operator==(const Ts& o) const { return secs == o.secs && ticks == o.ticks; }
  bool operator!=(const Ts& o) const { return !(*this == o); }
  std::string show() const { return std::to_string(secs) + "s+" + std::to_string(ticks); }
};

struct RRec {
  std::string name;
  i128 type = 0, cls = 0;
  bool has_ttl = false; i128 ttl = 0;
  bool has_rdata = false; std::string rdata;
  bool operator==(const RRec& o) const {
    return name == o.name && type == o.type && cls == o.cls && has_ttl == o.has_ttl && (!has_ttl || ttl == o.ttl) &&
           has_rdata == o.has_rdata && (!has_rdata || rdata == o.rdata);
  }
  std::string show() const {
    return "{" + hexs(name) + " t" + i128s(type) + " c" + i128s(cls) + (has_ttl ? " ttl" + i128s(ttl) : "") + (has_rdata ? " rd" + hexs(rdata) : "") + "}";
  }
};

enum VKind { V_INT, V_BYTES, V_TEXT, V_TS, V_CT, V_RRS };
struct Val {
  int kind = V_INT;
  i128 i = 0, j = 0;      // INT: i; CT: i=type, j=class
  std::string s;          // BYTES / TEXT
  Ts ts;
  std::vector<RRec> rr;
  bool operator==(const Val& o) const {
    if (kind != o.kind) return false;
    switch (kind) {
      case V_INT: return i == o.i;
      case V_BYTES: case V_TEXT: return s == o.s;
      case V_TS: return ts == o.ts;
      case V_CT: return i == o.i && j == o.j;
      default: return rr == o.rr;
    }
  }
  std::string show() const {
    switch (kind) {
      case V_INT: return i128s(i);
      case V_BYTES: return "h'" + hexs(s) + "'";
      case V_TEXT: return "\"" + hexs(s) + "\"";
      case V_TS: return ts.show();
      case V_CT: return "ct(" + i128s(i) + "," + i128s(j) + ")";
      default: { std::string o = "["; for (auto& r : rr) o += r.show(); return o + "]"; }
    }
  }
  static Val Int(i128 v) { Val x; x.kind = V_INT; x.i = v; return x; }
  static Val Bytes(const std::string& v) { Val x; x.kind = V_BYTES; x.s = v; return x; }
  static Val Text(const std::string& v) { Val x; x.kind = V_TEXT; x.s = v; return x; }
  static Val Time(Ts t) { Val x; x.kind = V_TS; x.ts = t; return x; }
  static Val Ct(i128 t, i128 c) { Val x; x.kind = V_CT; x.i = t; x.j = c; return x; }
  static Val Rrs(std::vector<RRec> v) { Val x; x.kind = V_RRS; x.rr = std::move(v); return x; }
};
typedef std::map<int, Val> Fields;

// ---- Query/Response fields ---------------------------------------------------------------
enum QF {
  Q_TS, Q_CLIENT_IP, Q_CLIENT_PORT, Q_TXID,
  Q_SERVER_IP, Q_SERVER_PORT, Q_TRANSPORT, Q_QRTYPE, Q_SIGFLAGS, Q_OPCODE, Q_DNSFLAGS, Q_QRCODE, Q_CLASSTYPE,
  Q_QDCOUNT, Q_ANCOUNT, Q_NSCOUNT, Q_ARCOUNT, Q_EDNSVER, Q_UDPSIZE, Q_OPTRDATA, Q_RRCODE,
  Q_HOPLIMIT, Q_DELAY, Q_QNAME, Q_QSIZE, Q_RSIZE,
  Q_BAILIWICK, Q_PROCFLAGS,
  Q_QQ, Q_QAN, Q_QAU, Q_QAD, Q_RQ, Q_RAN, Q_RAU, Q_RAD,
  Q_ASN, Q_CC, Q_RTT,
  Q_COUNT
};
static const char* const QF_NAME[Q_COUNT] = {
  "ts", "client_ip", "client_port", "txid", "server_ip", "server_port", "transport", "qr_type", "sig_flags", "opcode", "dns_flags",
  "query_rcode", "classtype", "qdcount", "ancount", "nscount", "arcount", "edns_ver", "udp_size", "opt_rdata", "response_rcode",
  "hoplimit", "delay", "qname", "qsize", "rsize", "bailiwick", "proc_flags", "q_questions", "q_answers", "q_authority", "q_additional",
  "r_questions", "r_answers", "r_authority", "r_additional", "asn", "country", "rtt"};

// hint governing each Q/R field (RFC 8618 StorageHints tables).  which: 0 = query-response-hints bit,
// 1 = query-response-signature-hints bit (additionally needs the qr-signature-index bit of the qr hints),
// 2 = no hint (implementation specific members, always storable)
struct HintRef { int which; unsigned bit; };
static const HintRef QF_HINT[Q_COUNT] = {
  {0, 0}, {0, 1}, {0, 2}, {0, 3},
  {1, 0}, {1, 1}, {1, 2}, {1, 3}, {1, 4}, {1, 5}, {1, 6}, {1, 7}, {1, 8},
  {1, 9}, {1, 10}, {1, 11}, {1, 12}, {1, 13}, {1, 14}, {1, 15}, {1, 16},
  {0, 5}, {0, 6}, {0, 7}, {0, 8}, {0, 9},
  {0, 10}, {0, 10},
  {0, 11}, {0, 12}, {0, 13}, {0, 14},
  {0, 11} /* response question list: see DESIGN section 4 */, {0, 15}, {0, 16}, {0, 17},
  {2, 0}, {2, 0}, {2, 0}};
static const unsigned QR_SIG_INDEX_BIT = 4;

enum MF { M_TS, M_CLIENT_IP, M_CLIENT_PORT, M_SERVER_IP, M_SERVER_PORT, M_TRANSPORT, M_PAYLOAD, M_COUNT };
static const char* const MF_NAME[M_COUNT] = {"ts", "client_ip", "client_port", "server_ip", "server_port", "transport", "payload"};

struct Hints {
  uint64_t qr = 0, sig = 0, rr = 0, other = 0;
  bool operator==(const Hints& o) const { return qr == o.qr && sig == o.sig && rr == o.rr && other == o.other; }
};
static const unsigned RR_TTL_BIT = 0, RR_RDATA_BIT = 1, OTHER_MM_BIT = 0, OTHER_AEC_BIT = 1;

inline bool qf_enabled(int f, const Hints& h) {
  const HintRef& r = QF_HINT[f];
  if (r.which == 2) return true;
  if (r.which == 0) return (h.qr >> r.bit) & 1;
  return ((h.qr >> QR_SIG_INDEX_BIT) & 1) && ((h.sig >> r.bit) & 1);
}
inline bool is_qlist(int f) { return f == Q_QQ || f == Q_RQ; }
inline bool is_rrlist(int f) { return f == Q_QAN || f == Q_QAU || f == Q_QAD || f == Q_RAN || f == Q_RAU || f == Q_RAD; }

// projection of a submitted Q/R record onto what the given hints allow to be stored;
// empty section lists count as absent
inline Fields project_qr(const Fields& in, const Hints& h) {
  Fields out;
  for (auto& kv : in) {
    int f = kv.first;
    if (!qf_enabled(f, h)) continue;
    Val v = kv.second;
    if (v.kind == V_RRS) {
      if (v.rr.empty()) continue;
      for (auto& r : v.rr) {
        if (is_qlist(f)) { r.has_ttl = false; r.ttl = 0; r.has_rdata = false; r.rdata.clear(); }
        else {
          if (!((h.rr >> RR_TTL_BIT) & 1)) { r.has_ttl = false; r.ttl = 0; }
          if (!((h.rr >> RR_RDATA_BIT) & 1)) { r.has_rdata = false; r.rdata.clear(); }
        }
      }
    }
    out[f] = v;
  }
  return out;
}
// normalisation applied to records read back (library reader or reference): empty lists == absent
inline Fields normalise(const Fields& in) {
  Fields out;
  for (auto& kv : in) {
    if (kv.second.kind == V_RRS && kv.second.rr.empty()) continue;
    out[kv.first] = kv.second;
  }
  return out;
}
inline std::string show_fields(const Fields& f, const char* const* names) {
  std::string o = "{";
  bool first = true;
  for (auto& kv : f) { if (!first) o += ", "; first = false; o += names[kv.first]; o += "="; o += kv.second.show(); }
  return o + "}";
}
inline std::string diff_fields(const Fields& a, const Fields& b, const char* const* names) {
  std::string o;
  for (auto& kv : a) {
    auto it = b.find(kv.first);
    if (it == b.end()) o += std::string(" [") + names[kv.first] + ": " + kv.second.show() + " vs ABSENT]";
    else if (!(it->second == kv.second)) o += std::string(" [") + names[kv.first] + ": " + kv.second.show() + " vs " + it->second.show() + "]";
  }
  for (auto& kv : b) if (!a.count(kv.first)) o += std::string(" [") + names[kv.first] + ": ABSENT vs " + kv.second.show() + "]";
  return o;
}

// ---- address events ---------------------------------------------------------------------
struct AecKey {
  i128 type = 0;
  bool has_code = false; i128 code = 0;
  bool has_tf = false; i128 tf = 0;
  std::string ip;
  std::string key() const { return i128s(type) + "/" + (has_code ? i128s(code) : "-") + "/" + (has_tf ? i128s(tf) : "-") + "/" + hexs(ip); }
};
typedef std::map<std::string, i128> AecCounts;  // key() -> count

// ---- statistics ---------------------------------------------------------------------------
struct StatsM {
  bool present = false;
  std::map<int, i128> f;  // 0..5
  bool operator==(const StatsM& o) const { return present == o.present && (!present || f == o.f); }
  std::string show() const {
    if (!present) return "none";
    std::string o = "{";
    for (auto& kv : f) o += std::to_string(kv.first) + ":" + i128s(kv.second) + " ";
    return o + "}";
  }
};

// ---- preamble -------------------------------------------------------------------------------
template <class T> struct Opt {
  bool has = false; T v{};
  void set(const T& x) { has = true; v = x; }
};
struct StorageP {
  i128 tps = 1000000, max_items = 10000;
  Hints hints;
  std::vector<i128> opcodes, rrtypes;
  Opt<i128> flags, c4, c6, s4, s6;
  Opt<std::string> sampling, anonym;
};
struct CollP {
  Opt<i128> query_timeout, skew_timeout, snaplen, promisc;
  std::vector<std::string> interfaces, server_address;
  std::vector<i128> vlan_ids;
  Opt<std::string> filter, generator_id, host_id;
};
struct BlockP {
  StorageP sp;
  bool has_cp = false;
  CollP cp;
};
struct Preamble {
  i128 major = 1, minor = 0;
  Opt<i128> priv;
  std::vector<BlockP> bps;
};
inline std::string oi(const Opt<i128>& o) { return o.has ? i128s(o.v) : "-"; }
inline std::string os(const Opt<std::string>& o) { return o.has ? "'" + hexs(o.v) + "'" : "-"; }
inline std::string dump(const BlockP& b) {
  std::string o = "sp{tps=" + i128s(b.sp.tps) + " max=" + i128s(b.sp.max_items) + " hints=" + std::to_string(b.sp.hints.qr) + "/" +
                  std::to_string(b.sp.hints.sig) + "/" + std::to_string(b.sp.hints.rr) + "/" + std::to_string(b.sp.hints.other) + " opcodes=[";
  for (auto v : b.sp.opcodes) o += i128s(v) + ",";
  o += "] rrtypes=[";
  for (auto v : b.sp.rrtypes) o += i128s(v) + ",";
  o += "] flags=" + oi(b.sp.flags) + " c4=" + oi(b.sp.c4) + " c6=" + oi(b.sp.c6) + " s4=" + oi(b.sp.s4) + " s6=" + oi(b.sp.s6) +
       " sampling=" + os(b.sp.sampling) + " anonym=" + os(b.sp.anonym) + "}";
  if (b.has_cp) {
    o += " cp{qt=" + oi(b.cp.query_timeout) + " st=" + oi(b.cp.skew_timeout) + " snap=" + oi(b.cp.snaplen) + " promisc=" + oi(b.cp.promisc) + " if=[";
    for (auto& s : b.cp.interfaces) o += "'" + hexs(s) + "',";
    o += "] sa=[";
    for (auto& s : b.cp.server_address) o += "'" + hexs(s) + "',";
    o += "] vlan=[";
    for (auto v : b.cp.vlan_ids) o += i128s(v) + ",";
    o += "] filter=" + os(b.cp.filter) + " gen=" + os(b.cp.generator_id) + " host=" + os(b.cp.host_id) + "}";
  } else o += " cp=absent";
  return o;
}
inline std::string dump(const Preamble& p) {
  std::string o = "preamble v" + i128s(p.major) + "." + i128s(p.minor) + " priv=" + oi(p.priv) + " sets=" + std::to_string(p.bps.size()) + "\n";
  for (size_t i = 0; i < p.bps.size(); i++) o += "  [" + std::to_string(i) + "] " + dump(p.bps[i]) + "\n";
  return o;
}

// ---- blocks / files -------------------------------------------------------------------------
struct BlockM {
  uint64_t bp_index = 0;
  bool has_bp_index = false;
  bool has_earliest = false;
  Ts earliest;
  StatsM stats;
  std::vector<Fields> qrs, mms;
  AecCounts aecs;
  size_t aec_entries = 0;       // number of entries in the file's array (== aecs.size() unless duplicates)
  size_t begin = 0, end = 0;    // byte range in the file (reference parse only)
  bool external = false;        // model side: block built by the application and handed to write_block(block)
};
struct FileM {
  Preamble pre;
  std::vector<BlockM> blocks;
};

inline std::string dump_block(const BlockM& b, bool with_earliest = false) {
  std::string o = "block bp=" + std::to_string(b.bp_index) + " stats=" + b.stats.show();
  if (with_earliest) o += " earliest=" + b.earliest.show();
  o += "\n";
  for (auto& q : b.qrs) o += "  qr " + show_fields(q, QF_NAME) + "\n";
  for (auto& m : b.mms) o += "  mm " + show_fields(m, MF_NAME) + "\n";
  for (auto& a : b.aecs) o += "  aec " + a.first + " x" + i128s(a.second) + "\n";
  return o;
}
inline std::string dump_file(const FileM& f) {
  std::string o = dump(f.pre);
  for (auto& b : f.blocks) o += dump_block(b);
  return o;
}

}  // namespace model
