// Generators in the model domain (no library types).  Preconditions respected here are listed in
// DESIGN.md section 3.
#pragma once
#include "chooser.hpp"
#include "model.hpp"

namespace gen {
using model::Fields;
using model::Val;
using vf::Chooser;

static const uint64_t I63 = 0x7FFFFFFFFFFFFFFFull;

struct Pools {
  std::vector<std::string> ips, names, payloads;
};
inline std::string wire_name(Chooser& c) {
  std::string s;
  unsigned labels = (unsigned)c.range(0, 3);
  for (unsigned i = 0; i < labels; i++) {
    unsigned len = (unsigned)c.range(1, 6);
    s.push_back((char)len);
    for (unsigned j = 0; j < len; j++) s.push_back((char)('a' + c.range(0, 25)));
  }
  s.push_back('\0');
  return s;
}
inline Pools make_pools(Chooser& c) {
  Pools p;
  unsigned n = (unsigned)c.range(1, 4);
  for (unsigned i = 0; i < n; i++) {
    bool v6 = c.coin();
    std::string ip(v6 ? 16 : 4, '\0');
    ip[0] = v6 ? 0x20 : 10; ip[ip.size() - 1] = (char)(i + 1);
    p.ips.push_back(ip);
  }
  n = (unsigned)c.range(1, 6);
  for (unsigned i = 0; i < n; i++) p.names.push_back(wire_name(c));
  n = (unsigned)c.range(1, 3);
  for (unsigned i = 0; i < n; i++) p.payloads.push_back(c.bytes(64));
  return p;
}
inline std::string gen_ip(Chooser& c, const Pools& p) {
  uint64_t m = c.range(0, 5);
  if (m <= 3) return c.pickv(p.ips);
  if (m == 4) return c.bytes_exact(c.coin() ? 16 : 4);
  return c.bytes(20);  // arbitrary length (the API takes any byte string)
}
inline std::string gen_name(Chooser& c, const Pools& p, size_t big = 300) {
  uint64_t m = c.range(0, 7);
  if (m <= 4) return c.pickv(p.names);
  if (m == 5) return wire_name(c);
  if (m == 6) return c.bytes(40);
  return c.bytes(big);
}

// ---- timestamps ----------------------------------------------------------------------------
// representable: ticks < tps and secs*tps + ticks <= 2^63-1
inline uint64_t max_secs(uint64_t tps) { return (I63 - (tps - 1)) / tps; }
struct TimeCtx {
  uint64_t base_secs = 0;
  int mode = 0;
};
inline TimeCtx gen_timectx(Chooser& c) {
  TimeCtx t;
  t.mode = (int)c.range(0, 5);
  switch (t.mode) {
    case 0: t.base_secs = c.range(0, 5); break;
    case 1: t.base_secs = 1700000000ull + c.range(0, 1000); break;
    case 2: t.base_secs = c.pick<uint64_t>({0x7FFFFFFFull, 0x80000000ull, 0xFFFFFFFFull, 0x100000000ull}) - c.range(0, 2); break;
    case 3: t.base_secs = ~0ull; break;   // "largest representable second for the tick rate" (clamped below)
    case 4: t.base_secs = c.range(0, 1ull << 40); break;
    default: t.base_secs = 100; break;
  }
  return t;
}
inline model::Ts gen_ts(Chooser& c, const TimeCtx& tc, uint64_t tps) {
  uint64_t ms = max_secs(tps);
  uint64_t base = tc.base_secs > ms ? ms : tc.base_secs;
  // small signed delta in seconds around base, out-of-order arrival on purpose
  int64_t d = (int64_t)c.range(0, 6) - 3;
  uint64_t secs = base;
  if (d < 0) secs = base >= (uint64_t)(-d) ? base - (uint64_t)(-d) : 0;
  else secs = (ms - base >= (uint64_t)d) ? base + (uint64_t)d : ms;
  uint64_t ticks;
  uint64_t m = c.range(0, 3);
  if (m == 0) ticks = 0;
  else if (m == 1) ticks = tps - 1;
  else if (m == 2) ticks = c.range(0, tps - 1 < 3 ? tps - 1 : 3);
  else ticks = c.range(0, tps - 1);
  model::Ts t; t.secs = secs; t.ticks = ticks;
  return t;
}

// ---- records -------------------------------------------------------------------------------
struct RecOpts {
  unsigned pres = 4;      // presence probability of each optional member, out of 8
  unsigned max_rr = 3;
  size_t big = 300;       // upper bound of "large" strings
};
inline model::RRec gen_rr(Chooser& c, const Pools& p, const RecOpts& o) {
  model::RRec r;
  r.name = gen_name(c, p, 60);
  uint64_t m = c.range(0, 3);
  if (m <= 1) { r.type = c.pick<int>({1, 28, 15}); r.cls = 1; }
  else { r.type = c.uint_bits(16); r.cls = c.uint_bits(16); }
  if (c.prob(o.pres, 8)) { r.has_ttl = true; r.ttl = c.uint_bits(32); }
  if (c.prob(o.pres, 8)) { r.has_rdata = true; r.rdata = gen_name(c, p, o.big); }
  return r;
}
static const unsigned QF_BITS[model::Q_COUNT] = {0, 0, 16, 16, 0, 16, 8, 8, 8, 8, 16, 16, 0, 16, 16, 16, 16, 8, 16, 0, 16, 8, 64, 0, 64, 64, 0, 8,
                                                 0, 0, 0, 0, 0, 0, 0, 0, 0, 0, 64};
inline Fields gen_qr(Chooser& c, const Pools& p, const TimeCtx& tc, uint64_t tps, const RecOpts& o) {
  Fields f;
  for (int id = 0; id < model::Q_COUNT; id++) {
    if (!c.prob(o.pres, 8)) continue;
    switch (id) {
      case model::Q_TS: f[id] = Val::Time(gen_ts(c, tc, tps)); break;
      case model::Q_CLIENT_IP: case model::Q_SERVER_IP: f[id] = Val::Bytes(gen_ip(c, p)); break;
      case model::Q_OPTRDATA: case model::Q_QNAME: case model::Q_BAILIWICK: f[id] = Val::Bytes(gen_name(c, p, o.big)); break;
      case model::Q_CLASSTYPE: if (c.coin()) f[id] = Val::Ct(1, 1); else f[id] = Val::Ct(c.uint_bits(16), c.uint_bits(16)); break;
      case model::Q_DELAY: case model::Q_RTT: f[id] = Val::Int(c.int_bits(64)); break;
      case model::Q_ASN: case model::Q_CC: f[id] = Val::Text(c.pick<const char*>({"", "CZ", "64512", "\xC3\xA9t\xC3\xA9", "AS-long-text-0123456789012345678901234567890"})); break;
      case model::Q_QQ: case model::Q_QAN: case model::Q_QAU: case model::Q_QAD: case model::Q_RQ: case model::Q_RAN: case model::Q_RAU: case model::Q_RAD: {
        std::vector<model::RRec> v;
        unsigned n = (unsigned)c.range(0, o.max_rr);   // empty lists on purpose
        for (unsigned i = 0; i < n; i++) v.push_back(gen_rr(c, p, o));
        f[id] = Val::Rrs(v);
        break;
      }
      default: f[id] = Val::Int(c.uint_bits(QF_BITS[id])); break;
    }
  }
  return f;
}
inline Fields gen_mm(Chooser& c, const Pools& p, const TimeCtx& tc, uint64_t tps, const RecOpts& o) {
  Fields f;
  for (int id = 0; id < model::M_COUNT; id++) {
    if (!c.prob(o.pres, 8)) continue;
    switch (id) {
      case model::M_TS: f[id] = Val::Time(gen_ts(c, tc, tps)); break;
      case model::M_CLIENT_IP: case model::M_SERVER_IP: f[id] = Val::Bytes(gen_ip(c, p)); break;
      case model::M_CLIENT_PORT: case model::M_SERVER_PORT: f[id] = Val::Int(c.uint_bits(16)); break;
      case model::M_TRANSPORT: f[id] = Val::Int(c.uint_bits(8)); break;
      default: f[id] = Val::Bytes(c.range(0, 2) ? c.pickv(p.payloads) : c.bytes(o.big)); break;
    }
  }
  return f;
}
inline model::AecKey gen_aec(Chooser& c, const Pools& p) {
  model::AecKey k;
  if (c.range(0, 3) == 0) {  // fresh key
    k.type = c.uint_bits(8);
    if (c.coin()) { k.has_code = true; k.code = c.uint_bits(8); }
    if (c.coin()) { k.has_tf = true; k.tf = c.uint_bits(8); }
    k.ip = gen_ip(c, p);
  } else {                   // small key space: forces repeats
    k.type = c.range(0, 2);
    if (c.coin()) { k.has_code = true; k.code = c.range(0, 1); }
    if (c.coin()) { k.has_tf = true; k.tf = c.range(0, 1); }
    k.ip = p.ips[c.range(0, p.ips.size() > 2 ? 1 : p.ips.size() - 1)];
  }
  return k;
}
// statistics: absent / present-but-empty / partial / full
inline model::StatsM gen_stats(Chooser& c, bool allow_empty) {
  model::StatsM s;
  uint64_t m = c.range(0, 3);
  if (m == 0) return s;
  s.present = true;
  if (m == 1 && allow_empty) return s;
  for (int i = 0; i < 6; i++) if (m == 3 || c.coin()) s.f[i] = c.uint_bits(32);
  if (s.f.empty() && !allow_empty) s.f[0] = 1;
  return s;
}

// ---- block parameters ----------------------------------------------------------------------
static const uint64_t QR_ALL = (1u << 18) - 1, SIG_ALL = (1u << 17) - 1;
inline model::Hints gen_hints(Chooser& c) {
  model::Hints h;
  h.qr = QR_ALL; h.sig = SIG_ALL; h.rr = 3; h.other = 3;
  uint64_t m = c.range(0, 7);
  switch (m) {
    case 7: {                                                 // a small subset (1..3 bits) of one group of related query/response bits, nothing else
      h.qr = h.sig = h.rr = h.other = 0;
      static const unsigned GROUP[][2] = {{0, 3}, {4, 7}, {8, 11}, {12, 14}, {15, 17}, {5, 7}};   // [first bit, last bit]
      const unsigned* g = GROUP[c.range(0, 5)];
      unsigned k = (unsigned)c.range(1, 3);
      for (unsigned i = 0; i < k; i++) h.qr |= 1ull << c.range(g[0], g[1]);
      h.rr = c.range(0, 3);
      break;
    }
    case 0: break;                                            // everything on (library default)
    case 1: h.qr = h.sig = h.rr = h.other = 0; break;         // everything off
    case 2: {                                                 // exactly one bit cleared
      uint64_t b = c.range(0, 18 + 17 + 2 + 2 - 1);
      if (b < 18) h.qr &= ~(1ull << b); else if (b < 35) h.sig &= ~(1ull << (b - 18)); else if (b < 37) h.rr &= ~(1ull << (b - 35)); else h.other &= ~(1ull << (b - 37));
      break;
    }
    case 3: {                                                 // exactly one bit set (plus sig-index when a sig bit is chosen)
      h.qr = h.sig = h.rr = h.other = 0;
      uint64_t b = c.range(0, 18 + 17 + 2 + 2 - 1);
      if (b < 18) h.qr = 1ull << b; else if (b < 35) { h.sig = 1ull << (b - 18); h.qr = 1ull << 4; } else if (b < 37) { h.rr = 1ull << (b - 35); h.qr = QR_ALL; } else h.other = 1ull << (b - 37);
      break;
    }
    case 4: h.other = c.range(0, 3); break;
    default: h.qr = c.range(0, QR_ALL); h.sig = c.range(0, SIG_ALL); h.rr = c.range(0, 3); h.other = c.range(0, 3); break;
  }
  return h;
}
inline std::string gen_utf8(Chooser& c) {
  if (c.range(0, 11) == 0) {
    // long, non-periodic text (several encoder buffers): numbered pieces, some multi-byte characters
    size_t target = (size_t)c.pick<int>({2040, 2049, 4097, 5000, 6500, 9000, 13000});
    std::string s;
    unsigned salt = (unsigned)c.range(0, 999);
    for (unsigned i = 0; s.size() < target; i++) { s += "host-" + std::to_string(i * 7 + salt) + (i % 5 == 0 ? "-\xC3\xA9," : ","); }
    return s;
  }
  if (c.range(0, 3) == 0) {
    // 1..6 code points from the whole Unicode range (surrogates excluded), the boundaries of the encoding lengths and of the planes
    // included: U+0000..U+10FFFF in one to four bytes
    std::string s;
    unsigned n = (unsigned)c.range(1, 6);
    for (unsigned i = 0; i < n; i++) {
      uint32_t cp;
      uint64_t m = c.range(0, 4);
      if (m == 0) cp = (uint32_t)c.pick<int>({0x7F, 0x80, 0x7FF, 0x800, 0xD7FF, 0xE000, 0xFFFD, 0xFFFF, 0x10000, 0x1D7FF, 0x1D800, 0x1DFFF, 0x2FFFF, 0xFD800, 0x10FFFF});
      else if (m == 1) cp = (uint32_t)c.range(0x20, 0x7E);
      else cp = (uint32_t)c.range(0x80, 0x10FFFF);
      if (cp >= 0xD800 && cp <= 0xDFFF) cp += 0x800;
      if (cp < 0x80) s.push_back((char)cp);
      else if (cp < 0x800) { s.push_back((char)(0xC0 | (cp >> 6))); s.push_back((char)(0x80 | (cp & 0x3F))); }
      else if (cp < 0x10000) { s.push_back((char)(0xE0 | (cp >> 12))); s.push_back((char)(0x80 | ((cp >> 6) & 0x3F))); s.push_back((char)(0x80 | (cp & 0x3F))); }
      else { s.push_back((char)(0xF0 | (cp >> 18))); s.push_back((char)(0x80 | ((cp >> 12) & 0x3F))); s.push_back((char)(0x80 | ((cp >> 6) & 0x3F))); s.push_back((char)(0x80 | (cp & 0x3F))); }
    }
    return s;
  }
  return c.pick<const char*>({"", "none", "Na\xC3\xAFve-\xE2\x82\xAC", "\xF0\x9F\x98\x80", "a-much-longer-method-description-0123456789-0123456789"});
}
struct BpOpts {
  bool full_hint_modes = true;
  bool any_tps = true;
  bool allow_empty_cp = true;
  std::vector<uint64_t> max_items = {0, 1, 2, 3, 5, 7, 40, 10000, 0x100000000ull, 0x100000002ull, 0xFFFFFFFFFFFFFFFFull};   // incl. values that do not fit 32 bits
};
inline model::BlockP gen_bp(Chooser& c, const BpOpts& o) {
  model::BlockP b;
  b.sp.tps = o.any_tps ? (model::i128)c.pick<uint64_t>({1000000ull, 1ull, 2ull, 3ull, 10ull, 1000ull, 1000000000ull, 0ull}) : 1000000;
  if (b.sp.tps == 0) b.sp.tps = c.range(1, 1000000000ull);
  b.sp.max_items = o.max_items[c.range(0, o.max_items.size() - 1)];
  if (o.full_hint_modes) b.sp.hints = gen_hints(c); else { b.sp.hints.qr = QR_ALL; b.sp.hints.sig = SIG_ALL; b.sp.hints.rr = 3; b.sp.hints.other = 3; }
  unsigned n = (unsigned)c.range(0, 4);
  for (unsigned i = 0; i < n; i++) b.sp.opcodes.push_back(c.uint_bits(8));
  n = (unsigned)c.range(0, 4);
  for (unsigned i = 0; i < n; i++) b.sp.rrtypes.push_back(c.uint_bits(16));
  if (c.coin()) b.sp.flags.set(c.uint_bits(8));
  if (c.coin()) b.sp.c4.set(c.uint_bits(8));
  if (c.coin()) b.sp.c6.set(c.uint_bits(8));
  if (c.coin()) b.sp.s4.set(c.uint_bits(8));
  if (c.coin()) b.sp.s6.set(c.uint_bits(8));
  if (c.coin()) b.sp.sampling.set(gen_utf8(c));
  if (c.coin()) b.sp.anonym.set(gen_utf8(c));
  uint64_t m = c.range(0, 3);  // collection parameters: absent / empty / partial / full
  if (m == 0) return b;
  if (m == 1 && !o.allow_empty_cp) m = 2;
  b.has_cp = true;
  if (m == 1) return b;
  auto on = [&]() { return m == 3 || c.coin(); };
  if (on()) b.cp.query_timeout.set(c.uint_bits(64));
  if (on()) b.cp.skew_timeout.set(c.uint_bits(64));
  if (on()) b.cp.snaplen.set(c.uint_bits(64));
  if (on()) b.cp.promisc.set(c.range(0, 1));
  if (on()) { unsigned k = (unsigned)c.range(1, 3); for (unsigned i = 0; i < k; i++) b.cp.interfaces.push_back(gen_utf8(c)); }
  if (on()) { unsigned k = (unsigned)c.range(1, 3); for (unsigned i = 0; i < k; i++) b.cp.server_address.push_back(c.bytes(16)); }
  if (on()) { unsigned k = (unsigned)c.range(1, 3); for (unsigned i = 0; i < k; i++) b.cp.vlan_ids.push_back(c.uint_bits(16)); }
  if (on()) b.cp.filter.set(gen_utf8(c));
  if (on()) b.cp.generator_id.set(gen_utf8(c));
  if (on()) b.cp.host_id.set(gen_utf8(c));
  if (m == 2 && !o.allow_empty_cp) {
    // "partial" must not degenerate into empty when empty is excluded
    bool any = b.cp.query_timeout.has || b.cp.skew_timeout.has || b.cp.snaplen.has || b.cp.promisc.has || !b.cp.interfaces.empty() ||
               !b.cp.server_address.empty() || !b.cp.vlan_ids.empty() || b.cp.filter.has || b.cp.generator_id.has || b.cp.host_id.has;
    if (!any) b.cp.snaplen.set(65535);
  }
  return b;
}

}  // namespace gen
