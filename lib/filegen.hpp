// Produces valid C-DNS files through the library's exporter from generated content (shared by the
// reread / mutread / tools / mt harnesses).  Returns the uncompressed bytes.
#pragma once
#include <fcntl.h>
#include <unistd.h>
#include "cdns.h"
#include "decomp.hpp"
#include "gen.hpp"
#include "lib_adapter.hpp"

namespace filegen {

struct Opts {
  unsigned max_sets = 3;
  unsigned max_records = 20;
  bool hint_modes = true;
  bool any_tps = true;
  bool stats = true;
  bool all_kinds = true;         // AEC and MM besides Q/R
  unsigned pres = 0;             // 0: per-file choice
  size_t big = 300;
  bool explicit_writes = true;
  bool priv_choice = true;
  std::vector<uint64_t> max_items = {1, 2, 3, 5, 7, 40, 10000};
  size_t pad_to = 0;             // >0: add filler Q/R records (long names) until the file is at least this long
  const model::Preamble* preset = nullptr;   // use these block parameter sets instead of generating them
};
struct Result {
  std::string bytes;
  model::Preamble pre;
  size_t records = 0;
  size_t blocks_hint = 0;        // number of write_block calls that wrote something
};

inline Result make(vf::Chooser& c, const std::string& scratch, const Opts& o) {
  namespace M = model;
  Result r;
  gen::Pools pools = gen::make_pools(c);
  gen::TimeCtx tc = gen::gen_timectx(c);
  gen::RecOpts ro;
  ro.pres = o.pres ? o.pres : (unsigned)c.pick<int>({4, 2, 6, 8});
  ro.big = o.big;
  gen::BpOpts bo;
  bo.full_hint_modes = o.hint_modes;
  bo.any_tps = o.any_tps;
  bo.max_items = o.max_items;
  unsigned nsets;
  if (o.preset) { r.pre = *o.preset; nsets = (unsigned)r.pre.bps.size(); }
  else {
    nsets = (unsigned)c.range(1, o.max_sets);
    for (unsigned i = 0; i < nsets; i++) r.pre.bps.push_back(gen::gen_bp(c, bo));
    if (o.priv_choice && c.coin()) r.pre.priv.set(c.range(0, 255));
  }
  CDNS::FilePreamble fp = adapt::lib_preamble(r.pre);
  static unsigned counter = 0;
  std::string path = scratch + "/fg" + std::to_string(counter++);
  uint64_t active = 0, cur = 0;
  {
    CDNS::CdnsExporter ex(fp, path, CDNS::CborOutputCompression::NO_COMPRESSION);
    unsigned n = (unsigned)c.range(1, o.max_records);
    size_t approx = 0;
    for (unsigned i = 0; i < n || approx < o.pad_to; i++) {
      uint64_t tps = (uint64_t)r.pre.bps[cur].sp.tps;
      uint64_t k = o.all_kinds ? c.range(0, 5) : 0;
      boost::optional<CDNS::BlockStatistics> st = boost::none;
      if (o.stats) st = adapt::lib_stats(gen::gen_stats(c, true));
      size_t w = 0;
      if (i >= n) {   // padding record
        M::Fields f;
        f[M::Q_QNAME] = M::Val::Bytes(c.bytes_exact(1500 + i % 7));
        f[M::Q_TXID] = M::Val::Int(i & 0xFFFF);
        w = ex.buffer_qr(adapt::generic_qr(f));
        approx += 1520;
      } else if (k <= 3) { w = ex.buffer_qr(adapt::generic_qr(gen::gen_qr(c, pools, tc, tps, ro)), st); approx += 60; }
      else if (k == 4) w = ex.buffer_aec(adapt::generic_aec(gen::gen_aec(c, pools)), st);
      else w = ex.buffer_mm(adapt::generic_mm(gen::gen_mm(c, pools, tc, tps, ro)), st);
      r.records++;
      if (w) { r.blocks_hint++; cur = active; }
      if (o.explicit_writes && c.range(0, 5) == 0) { if (ex.write_block()) r.blocks_hint++; cur = active; }
      if (nsets > 1 && c.range(0, 4) == 0) { active = c.range(0, nsets - 1); ex.set_active_block_parameters((CDNS::index_t)active); }
    }
    if (ex.write_block()) r.blocks_hint++;
  }
  vf::read_file(path, r.bytes);
  ::unlink(path.c_str());
  return r;
}

}  // namespace filegen
