// Common driver for the rapidcheck harness executables.
//   <bin> --prop NAME --cases N --seed S --size Z --out PREFIX         (generated search)
//   <bin> --prop NAME --replay FILE [--out PREFIX]                      (replay a choice file, no rapidcheck)
// Exit status: 0 = all cases held, 1 = oracle failure (PREFIX.fail.choices written, shrunk),
// anything else (sanitizer abort, signal, terminate) = crash; PREFIX.current.choices holds the
// choices drawn by the case that was executing.
#pragma once
#include <rapidcheck.h>
#include <signal.h>
#include <sys/syscall.h>
#include <unistd.h>
#include <fcntl.h>
#include <atomic>
#include <chrono>
#include <thread>
#include <functional>
#include <map>
#include <set>
#include <sstream>
#include <string>
#include <unordered_set>
#include <vector>
#include "chooser.hpp"

extern "C" void __sanitizer_set_death_callback(void (*)(void)) __attribute__((weak));

namespace vf {

struct Failure : std::runtime_error {
  explicit Failure(const std::string& m) : std::runtime_error(m) {}
};
#define VF_CHECK(cond, msg)                                                         \
  do {                                                                              \
    if (!(cond)) {                                                                  \
      std::ostringstream vf_os__;                                                   \
      vf_os__ << msg << "  [" #cond " @" << __FILE__ << ":" << __LINE__ << "]";      \
      throw vf::Failure(vf_os__.str());                                             \
    }                                                                               \
  } while (0)

inline std::string jesc(const std::string& s) {
  std::string o;
  for (unsigned char c : s) {
    if (c == '"') o += "\\\"";
    else if (c == '\\') o += "\\\\";
    else if (c == '\n') o += "\\n";
    else if (c == '\t') o += "\\t";
    else if (c < 0x20 || c >= 0x7f) { char b[8]; snprintf(b, sizeof b, "\\u%04x", c); o += b; }
    else o += (char)c;
  }
  return o;
}
inline std::string hex(const std::string& s, size_t max = 96) {
  static const char* H = "0123456789abcdef";
  std::string o;
  for (size_t i = 0; i < s.size() && i < max; i++) { o += H[(unsigned char)s[i] >> 4]; o += H[s[i] & 15]; }
  if (s.size() > max) o += "..(" + std::to_string(s.size()) + "B)";
  return o;
}

struct Stats {
  uint64_t evaluations = 0;
  uint64_t nontrivial = 0;
  std::unordered_set<uint64_t> nontrivial_hashes;
  std::map<std::string, uint64_t> classes;   // histogram of case classes
  std::map<std::string, uint64_t> counters;  // free counters (excluded-by-construction, sub-space sizes, ...)
  std::vector<std::string> samples;          // rendered non-trivial cases
  std::vector<std::string> notes;
  void cls(const std::string& k, uint64_t n = 1) { classes[k] += n; }
  void cnt(const std::string& k, uint64_t n = 1) { counters[k] += n; }
};

struct Case {
  Chooser& c;
  Stats& st;
  unsigned size;          // generator size parameter of this run
  bool nontrivial = false;
  std::string sample;     // rendering of the case (kept if it is among the first non-trivial ones)
  bool replay = false;    // true when replaying a saved file (harness may print more)
  std::string scratch;    // per-process scratch directory (exists)
};

using PropFn = std::function<void(Case&)>;

// signatures of known findings (from /verif/known_findings.txt, passed by the driver): a harness that
// meets one counts it (counter "known:<sig>"), excludes that case from the oracle and goes on.
inline std::set<std::string>& known_sigs() { static std::set<std::string> s; return s; }
inline bool is_known(Stats& st, const std::string& sig) {
  static const bool collect = getenv("VF_COLLECT_SIGS") != nullptr;   // triage aid: list every failing signature without stopping
  if (collect) { st.cnt("collected:" + sig); return true; }
  if (known_sigs().count(sig)) { st.cnt("known:" + sig); return true; }
  return false;
}

struct Registry {
  std::map<std::string, PropFn> props;
  void add(const std::string& n, PropFn f) { props[n] = f; }
};

// ---- crash capture --------------------------------------------------------------------
namespace detail {
static const std::vector<uint64_t>* g_cur_log = nullptr;
static char g_cur_path[512];
static char g_header[256];
static bool g_dumped = false;
static std::atomic<int64_t> g_case_started{0};   // steady-clock seconds at which the running case began (0: between cases)
static std::atomic<bool> g_in_replay{false};
static char g_hb_path[512];
static int64_t g_last_hb = 0;
inline int64_t now_s() { return (int64_t)std::chrono::duration_cast<std::chrono::seconds>(std::chrono::steady_clock::now().time_since_epoch()).count() + 1; }
// heartbeat for the driver's stall detection: at most one write per second
inline void heartbeat(uint64_t evaluations) {
  int64_t t = now_s();
  if (t == g_last_hb || !g_hb_path[0]) return;
  g_last_hb = t;
  int fd = ::open(g_hb_path, O_WRONLY | O_CREAT | O_TRUNC, 0644);
  if (fd >= 0) { char b[32]; int n = snprintf(b, sizeof b, "%llu\n", (unsigned long long)evaluations); (void)!::write(fd, b, (size_t)n); ::close(fd); }
}
// Runs inside sanitizer death callbacks and signal handlers: no instrumented memory accesses (under ThreadSanitizer an
// instrumented access may need a runtime lock the dying thread already holds - observed as a deadlock), no intercepted
// libc calls (raw system calls only).
__attribute__((no_sanitize("thread"))) inline void dump_current() {
  if (g_dumped || !g_cur_log || !g_cur_path[0]) return;
  g_dumped = true;
  long fd = syscall(SYS_openat, AT_FDCWD, g_cur_path, O_WRONLY | O_CREAT | O_TRUNC, 0644);
  if (fd < 0) return;
  size_t hl = 0;
  while (g_header[hl]) hl++;
  (void)!syscall(SYS_write, fd, g_header, hl);
  char buf[32];
  const uint64_t* d = g_cur_log->data();
  size_t cnt = g_cur_log->size();
  for (size_t i = 0; i < cnt; i++) {
    int n = 0; char tmp[24]; uint64_t x = d[i];
    do { tmp[n++] = (char)('0' + x % 10); x /= 10; } while (x);
    int k = 0; while (n) buf[k++] = tmp[--n];
    buf[k++] = '\n';
    (void)!syscall(SYS_write, fd, buf, (size_t)k);
  }
  syscall(SYS_close, fd);
}
__attribute__((no_sanitize("thread"))) inline void on_abort(int) {
  dump_current();
  // leave at once through a raw system call: signal()/raise() are intercepted by the sanitizers and may deadlock here
  syscall(SYS_exit_group, 134);
}
}  // namespace detail

inline void write_stats(const std::string& path, const Stats& st, const std::string& prop, double wall,
                        const std::string& status, const std::string& failmsg) {
  FILE* f = fopen(path.c_str(), "w");
  if (!f) return;
  fprintf(f, "{\"prop\":\"%s\",\"status\":\"%s\",\"evaluations\":%llu,\"nontrivial\":%llu,\"wall_s\":%.3f,\n",
          prop.c_str(), status.c_str(), (unsigned long long)st.evaluations, (unsigned long long)st.nontrivial, wall);
  fprintf(f, "\"failmsg\":\"%s\",\n", jesc(failmsg).c_str());
  fprintf(f, "\"classes\":{");
  bool first = true;
  for (auto& kv : st.classes) { fprintf(f, "%s\"%s\":%llu", first ? "" : ",", jesc(kv.first).c_str(), (unsigned long long)kv.second); first = false; }
  fprintf(f, "},\n\"counters\":{");
  first = true;
  for (auto& kv : st.counters) { fprintf(f, "%s\"%s\":%llu", first ? "" : ",", jesc(kv.first).c_str(), (unsigned long long)kv.second); first = false; }
  fprintf(f, "},\n\"samples\":[");
  first = true;
  for (auto& s : st.samples) { fprintf(f, "%s\"%s\"", first ? "" : ",", jesc(s).c_str()); first = false; }
  fprintf(f, "],\n\"notes\":[");
  first = true;
  for (auto& s : st.notes) { fprintf(f, "%s\"%s\"", first ? "" : ",", jesc(s).c_str()); first = false; }
  fprintf(f, "],\n\"hashes\":[");
  first = true;
  for (auto h : st.nontrivial_hashes) { fprintf(f, "%s\"%016llx\"", first ? "" : ",", (unsigned long long)h); first = false; }
  fprintf(f, "]}\n");
  fclose(f);
}

struct RcChooser : Chooser {
  uint64_t raw(uint64_t lo, uint64_t hi) override {
    uint64_t span = hi - lo;
    if (span < (1ull << 62)) return lo + *rc::gen::resize(100, rc::gen::inRange<uint64_t>(0, span + 1));
    uint64_t h = *rc::gen::resize(100, rc::gen::inRange<uint64_t>(0, (span >> 32) + 1));
    uint64_t l = *rc::gen::resize(100, rc::gen::inRange<uint64_t>(0, 1ull << 32));
    uint64_t v = (h << 32) | l;
    if (v > span) v = span;
    return lo + v;
  }
};

// Exhaustive enumeration of a property's whole choice tree (depth-first odometer).  The first
// choice of the property is the sharding dimension: shard i of n takes the values lo+i, lo+i+n, ...
struct EnumChooser : Chooser {
  std::vector<uint64_t> cur, los, his;
  size_t pos = 0;
  unsigned shard = 0, nshards = 1;
  bool empty_shard = false;
  uint64_t raw(uint64_t lo, uint64_t hi) override {
    uint64_t v;
    if (pos < cur.size()) {
      v = cur[pos];
      los[pos] = lo; his[pos] = hi;
    } else {
      v = lo;
      if (pos == 0) { if (hi - lo < shard) { empty_shard = true; } else v = lo + shard; }
      cur.push_back(v); los.push_back(lo); his.push_back(hi);
    }
    pos++;
    return v;
  }
  bool next() {
    for (size_t p = cur.size(); p-- > 0;) {
      uint64_t step = (p == 0) ? nshards : 1;
      if (his[p] - cur[p] >= step) {
        cur[p] += step;
        cur.resize(p + 1); los.resize(p + 1); his.resize(p + 1);
        pos = 0; log.clear();
        return true;
      }
    }
    return false;
  }
};

inline int harness_main(int argc, char** argv, Registry& reg) {
  std::string prop, out = "vf", replay;
  uint64_t cases = 100, seed = 1;
  unsigned size = 30;
  bool enumerate = false;
  unsigned shard = 0, nshards = 1;
  double shrink_budget = 90;
  long case_timeout = 0;
  std::string dump_dir;
  for (int i = 1; i < argc; i++) {
    std::string a = argv[i];
    auto next = [&]() -> std::string { return i + 1 < argc ? argv[++i] : ""; };
    if (a == "--prop") prop = next();
    else if (a == "--cases") cases = strtoull(next().c_str(), 0, 10);
    else if (a == "--seed") seed = strtoull(next().c_str(), 0, 10);
    else if (a == "--size") size = (unsigned)strtoul(next().c_str(), 0, 10);
    else if (a == "--out") out = next();
    else if (a == "--replay") replay = next();
    else if (a == "--known") { std::string k = next(); size_t p0 = 0; while (p0 <= k.size()) { size_t q = k.find(',', p0); if (q == std::string::npos) q = k.size(); if (q > p0) known_sigs().insert(k.substr(p0, q - p0)); p0 = q + 1; } }
    else if (a == "--shrink-budget") shrink_budget = atof(next().c_str());
    else if (a == "--dump-cases") dump_dir = next();
    else if (a == "--case-timeout") case_timeout = atol(next().c_str());
    else if (a == "--enumerate") enumerate = true;
    else if (a == "--shard") shard = (unsigned)strtoul(next().c_str(), 0, 10);
    else if (a == "--nshards") nshards = (unsigned)strtoul(next().c_str(), 0, 10);
    else if (a == "--list") { for (auto& kv : reg.props) printf("%s\n", kv.first.c_str()); return 0; }
  }
  auto it = reg.props.find(prop);
  if (it == reg.props.end()) { fprintf(stderr, "unknown --prop %s\n", prop.c_str()); return 2; }
  PropFn fn = it->second;

  Stats st;
  std::string scratch = out + ".scratch";
  (void)!system(("rm -rf '" + scratch + "' && mkdir -p '" + scratch + "'").c_str());
  snprintf(detail::g_cur_path, sizeof detail::g_cur_path, "%s.current.choices", out.c_str());
  snprintf(detail::g_header, sizeof detail::g_header, "# prop=%s harness=%s size=%u\n", prop.c_str(), argv[0], size);
  std::string header = detail::g_header;
  snprintf(detail::g_hb_path, sizeof detail::g_hb_path, "%s.hb", out.c_str());
  if (case_timeout > 0) {
    // A case that does not finish is a failure of its own (the calls under test have to return).  The limit is several
    // orders of magnitude above the normal cost of a case; the driver confirms by three isolated replays.
    static std::string wd_prop = prop;
    std::thread([case_timeout] {
      for (;;) {
        std::this_thread::sleep_for(std::chrono::milliseconds(500));
        int64_t st0 = detail::g_case_started.load();
        if (st0 && detail::now_s() - st0 > case_timeout) {
          detail::dump_current();
          char msg[300];
          int n = snprintf(msg, sizeof msg, "%ssig=%s.no_termination the case did not finish within %ld s\n", detail::g_in_replay.load() ? "REPLAY-FAIL " : "CASE-TIMEOUT ", wd_prop.c_str(), case_timeout);
          (void)!syscall(SYS_write, 1, msg, (size_t)n);
          syscall(SYS_exit_group, 97);
        }
      }
    }).detach();
  }
  ::unlink(detail::g_cur_path);
  ::unlink((out + ".fail.choices").c_str());
  ::unlink((out + ".fail.txt").c_str());
  if (__sanitizer_set_death_callback) __sanitizer_set_death_callback(detail::dump_current);
  signal(SIGABRT, detail::on_abort);
  std::set_terminate([] { detail::dump_current(); fprintf(stderr, "std::terminate called\n"); abort(); });

  auto t0 = std::chrono::steady_clock::now();
  auto wall = [&] { return std::chrono::duration<double>(std::chrono::steady_clock::now() - t0).count(); };
  std::string failmsg;

  // Shrinking is bounded by wall clock: once the budget since the first failure is used up, remaining shrink
  // candidates are skipped (they count as passing), which ends rapidcheck's shrink loop; the saved failing
  // case is the smallest one found so far.
  double first_fail_at = -1;
  auto run_one = [&](Chooser& ch, bool is_replay) {
    if (first_fail_at >= 0 && wall() - first_fail_at > shrink_budget) {
      // leave rapidcheck's shrink loop for good (skipping candidates one by one is quadratic for long choice sequences)
      st.notes.push_back("shrinking stopped after its time budget; the saved case is the smallest failing one found so far");
      write_stats(out + ".stats.json", st, prop, wall(), "fail", failmsg);
      fflush(nullptr);
      _exit(1);
    }
    Case cs{ch, st, size};
    cs.replay = is_replay;
    cs.scratch = scratch;
    detail::g_cur_log = &ch.log;
    detail::g_dumped = false;
    st.evaluations++;
    detail::heartbeat(st.evaluations);
    detail::g_in_replay = is_replay;
    detail::g_case_started = detail::now_s();
    struct CaseEnd { ~CaseEnd() { detail::g_case_started = 0; } } case_end;
    try {
      try {
        fn(cs);
      } catch (const Failure&) { throw;
      } catch (const rc::detail::CaseResult&) { throw;
      } catch (const rc::GenerationFailure&) { throw;
      } catch (const std::exception& e) {
        // an exception the property did not expect: report it like an oracle failure (with the case saved)
        throw Failure(std::string("sig=unexpected_exception ") + e.what());
      }
    } catch (const Failure& f) {
      failmsg = f.what();
      if (first_fail_at < 0) first_fail_at = wall();
      save_choices(out + ".fail.choices", ch.log, header + "# failure: " + jesc(failmsg) + "\n");
      FILE* fr = fopen((out + ".fail.txt").c_str(), "w");
      if (fr) { fprintf(fr, "%s\n---- case ----\n%s\n", failmsg.c_str(), cs.sample.c_str()); fclose(fr); }
      detail::g_cur_log = nullptr;
      throw;
    }
    detail::g_cur_log = nullptr;
    if (!dump_dir.empty() && !is_replay) save_choices(dump_dir + "/case_" + std::to_string(st.evaluations) + ".choices", ch.log, header);
    if (cs.nontrivial) {
      st.nontrivial++;
      st.nontrivial_hashes.insert(hash_log(ch.log));
      if (st.samples.size() < 4 && !cs.sample.empty()) st.samples.push_back(cs.sample.substr(0, 1500));
    }
  };

  if (!replay.empty()) {
    ReplayChooser rc_;
    std::string hdr;
    if (!ReplayChooser::load(replay, rc_.src, &hdr)) { fprintf(stderr, "cannot read %s\n", replay.c_str()); return 2; }
    size_t p = hdr.find("size=");
    if (p != std::string::npos) size = (unsigned)strtoul(hdr.c_str() + p + 5, 0, 10);
    try {
      run_one(rc_, true);
    } catch (const Failure& f) {
      printf("REPLAY-FAIL %s\n", f.what());
      write_stats(out + ".stats.json", st, prop, wall(), "fail", failmsg);
      return 1;
    }
    printf("REPLAY-OK\n");
    write_stats(out + ".stats.json", st, prop, wall(), "ok", "");
    return 0;
  }

  if (enumerate) {
    EnumChooser ec;
    ec.shard = shard; ec.nshards = nshards ? nshards : 1;
    bool ok = true;
    uint64_t cells = 0;
    for (;;) {
      ec.pos = 0; ec.log.clear();
      try {
        run_one(ec, false);
      } catch (const Failure& f) {
        ok = false;
        break;
      }
      if (ec.empty_shard) { st.evaluations = 0; break; }
      cells++;
      if (cases && cells >= cases * 1000000ull) { st.notes.push_back("enumeration cut at case limit"); break; }
      if (!ec.next()) break;
    }
    st.cnt("enumerated_cells", cells);
    write_stats(out + ".stats.json", st, prop, wall(), ok ? "ok" : "fail", failmsg);
    (void)!system(("rm -rf '" + scratch + "'").c_str());
    return ok ? 0 : 1;
  }

  std::string params = "seed=" + std::to_string(seed) + " max_success=" + std::to_string(cases) + " max_size=100";
  setenv("RC_PARAMS", params.c_str(), 1);
  bool ok = rc::check(prop, [&] {
    RcChooser ch;
    try {
      run_one(ch, false);
    } catch (const Failure& f) {
      RC_FAIL(std::string(f.what()));
    }
  });
  write_stats(out + ".stats.json", st, prop, wall(), ok ? "ok" : "fail", failmsg);
  (void)!system(("rm -rf '" + scratch + "'").c_str());
  return ok ? 0 : 1;
}

}  // namespace vf
