#!/usr/bin/env python3
"""Validate MANIFEST.json and evidence files against the schemas (run with python3-vt)."""
import json, sys, glob
import jsonschema
ok = True
m = json.load(open('/verif/MANIFEST.json'))
try:
    jsonschema.validate(m, json.load(open('/root/.vp/MANIFEST.schema.json')))
    print('MANIFEST ok: %d checks, %d n/a' % (len(m['checks']), len(m.get('not_applicable', []))))
except Exception as e:
    ok = False; print('MANIFEST INVALID', e)
es = json.load(open('/root/.vp/EVIDENCE.schema.json'))
for f in sorted(glob.glob('/verif/evidence/*.json')):
    try:
        jsonschema.validate(json.load(open(f)), es)
    except Exception as e:
        ok = False; print('EVIDENCE INVALID', f, str(e)[:300])
print('all valid' if ok else 'PROBLEMS')
sys.exit(0 if ok else 1)
