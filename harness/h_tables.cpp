// tables harness: C11 (block tables de-duplicate, keep indices stable, stay closed) as a state machine
// over the nine tables of a CdnsBlock, and C19 (blocks have value semantics).
#include <sstream>
#include <unordered_map>

#include "cdns.h"

#include "cdns_ref.hpp"
#include "filegen.hpp"
#include "harness.hpp"
#include "lib_adapter.hpp"

using namespace vf;
using namespace CDNS;
namespace M = model;

// A table value is described by a Spec (plain data); library objects are built from it on demand, always
// as fresh separate objects, so equal values never share storage.
enum Tab { T_IP, T_CT, T_NRD, T_SIG, T_QLIST, T_QRR, T_RRLIST, T_RR, T_MMD, T_N };
static const char* TN[T_N] = {"ip_address", "classtype", "name_rdata", "qr_sig", "qlist", "qrr", "rrlist", "rr", "mmd"};
struct Spec {
  std::vector<int64_t> v;   // -1 = optional member absent
  std::string s;
  bool operator<(const Spec& o) const { return v != o.v ? v < o.v : s < o.s; }
  bool operator==(const Spec& o) const { return v == o.v && s == o.s; }
  std::string show() const { std::string r = "["; for (auto x : v) r += std::to_string(x) + ","; return r + "]'" + hex(s, 24) + "'"; }
};
template <class T> static void opt_set(boost::optional<T>& o, int64_t v) { if (v >= 0) o = static_cast<T>(v); }

static QueryResponseSignature mk_sig(const Spec& p) {
  QueryResponseSignature q;
  opt_set(q.server_address_index, p.v[0]); opt_set(q.server_port, p.v[1]); opt_set(q.qr_transport_flags, p.v[2]); opt_set(q.qr_type, p.v[3]);
  opt_set(q.qr_sig_flags, p.v[4]); opt_set(q.query_opcode, p.v[5]); opt_set(q.qr_dns_flags, p.v[6]); opt_set(q.query_rcode, p.v[7]);
  opt_set(q.query_classtype_index, p.v[8]); opt_set(q.query_qdcount, p.v[9]); opt_set(q.query_ancount, p.v[10]); opt_set(q.query_nscount, p.v[11]);
  opt_set(q.query_arcount, p.v[12]); opt_set(q.query_edns_version, p.v[13]); opt_set(q.query_udp_size, p.v[14]); opt_set(q.query_opt_rdata_index, p.v[15]);
  opt_set(q.response_rcode, p.v[16]);
  return q;
}
static ClassType mk_ct(const Spec& p) { ClassType c; c.type = (uint16_t)p.v[0]; c.class_ = (uint16_t)p.v[1]; return c; }
static Question mk_q(const Spec& p) { Question q; q.name_index = (index_t)p.v[0]; q.classtype_index = (index_t)p.v[1]; return q; }
static RR mk_rr(const Spec& p) { RR r; r.name_index = (index_t)p.v[0]; r.classtype_index = (index_t)p.v[1]; opt_set(r.ttl, p.v[2]); opt_set(r.rdata_index, p.v[3]); return r; }
static MalformedMessageData mk_mmd(const Spec& p) {
  MalformedMessageData m;
  opt_set(m.server_address_index, p.v[0]); opt_set(m.server_port, p.v[1]); opt_set(m.mm_transport_flags, p.v[2]);
  if (p.v[3] >= 0) m.mm_payload = p.s;
  return m;
}
static std::vector<index_t> mk_list(const Spec& p) { std::vector<index_t> l; for (auto x : p.v) l.push_back((index_t)x); return l; }

// Adversarial pool: pairs of DIFFERENT values with the SAME library hash (found once per process by a birthday search over
// the library's public hash functor; 32-bit CRC => ~400 000 candidates give a handful of pairs).  A table that keeps one slot
// per hash value, or compares hashes instead of values, confuses exactly these.
struct Colliders { std::vector<std::pair<std::string, std::string>> strings; std::vector<std::pair<Spec, Spec>> questions; };
static const Colliders& colliders() {
  static Colliders C;
  static bool done = false;
  if (done) return C;
  done = true;
  {
    std::unordered_map<size_t, std::string> seen;
    seen.reserve(600000);
    for (unsigned i = 0; i < 500000 && C.strings.size() < 6; i++) {
      StringItem it;
      it.data = "\x09host" + std::to_string(i * 2654435761u % 1000003) + "\x03net" + std::to_string(i) + std::string(1, '\0');
      size_t h = CDNS::hash<StringItem>()(it);
      auto ins = seen.emplace(h, it.data);
      if (!ins.second && ins.first->second != it.data) C.strings.emplace_back(ins.first->second, it.data);
    }
  }
  {
    std::unordered_map<size_t, std::pair<uint32_t, uint32_t>> seen;
    seen.reserve(600000);
    for (uint32_t i = 0; i < 500000 && C.questions.size() < 6; i++) {
      Question q; q.name_index = i * 40503u + 17; q.classtype_index = (i * 2246822519u) >> 7;
      size_t h = CDNS::hash<Question>()(q);
      auto ins = seen.emplace(h, std::make_pair(q.name_index, q.classtype_index));
      if (!ins.second && (ins.first->second.first != q.name_index || ins.first->second.second != q.classtype_index)) {
        Spec a, b; a.v = {(int64_t)ins.first->second.first, (int64_t)ins.first->second.second}; b.v = {(int64_t)q.name_index, (int64_t)q.classtype_index};
        C.questions.emplace_back(a, b);
      }
    }
  }
  return C;
}
static Spec normalise_spec(int t, Spec p);
static Spec gen_spec(Chooser& c, int t, bool fresh, uint64_t salt) {
  Spec p;
  if (!fresh && (t == T_IP || t == T_NRD) && !colliders().strings.empty() && c.range(0, 3) == 0) {
    auto& pr = colliders().strings[c.range(0, colliders().strings.size() - 1)];
    p.s = c.coin() ? pr.first : pr.second;
    return p;
  }
  if (!fresh && t == T_QRR && !colliders().questions.empty() && c.range(0, 3) == 0) {
    auto& pr = colliders().questions[c.range(0, colliders().questions.size() - 1)];
    return c.coin() ? pr.first : pr.second;
  }
  auto small = [&](uint64_t hi) { return fresh ? (int64_t)c.range(0, 0xFFFF) : (int64_t)c.range(0, hi); };
  switch (t) {
    case T_IP: case T_NRD:
      if (fresh) { p.s = c.bytes(40); p.s += std::to_string(salt); }
      else p.s = c.pick<const char*>({"", "a", "\x0a\x00\x00\x01", "0123456789abcdef", "0123456789abcdefg", "\x03www\x07example\x03org"});
      break;
    case T_CT: p.v = {small(2), small(1)}; break;
    case T_SIG: {
      p.v.assign(17, -1);
      unsigned n = (unsigned)c.range(0, fresh ? 17 : 3);
      for (unsigned i = 0; i < n; i++) { unsigned m = (unsigned)c.range(0, 16); p.v[m] = (m == 2 || m == 3 || m == 4 || m == 5 || m == 13) ? (int64_t)c.range(0, fresh ? 255 : 1) : small(1); }
      break;
    }
    case T_QLIST: case T_RRLIST: { unsigned n = (unsigned)c.range(0, fresh ? 6 : 2); for (unsigned i = 0; i < n; i++) p.v.push_back(small(2)); break; }
    case T_QRR: p.v = {small(2), small(2)}; break;
    case T_RR: p.v = {small(1), small(1), c.coin() ? small(1) : -1, c.coin() ? small(1) : -1}; break;
    default:
      p.v = {c.coin() ? small(1) : -1, c.coin() ? small(1) : -1, c.coin() ? (int64_t)c.range(0, 1) : -1, c.coin() ? 1 : -1};
      if (p.v[3] >= 0) { if (fresh) { p.s = c.bytes(60); p.s += std::to_string(salt); } else p.s = c.pick<const char*>({"", "payload", "0123456789abcdef0123456789abcdef"}); }
      break;
  }
  return normalise_spec(t, p);
}
// keeps Spec canonical: equal library values <=> equal Specs (member widths, payload flag)
static Spec normalise_spec(int t, Spec p) {
  auto w = [](int64_t v, int64_t mod) { return v < 0 ? v : v % mod; };
  switch (t) {
    case T_CT: p.v[0] = w(p.v[0], 65536); p.v[1] = w(p.v[1], 65536); break;
    case T_SIG: {
      static const int64_t W[17] = {1ll << 32, 65536, 256, 256, 256, 256, 65536, 65536, 1ll << 32, 65536, 1ll << 32, 65536, 65536, 256, 65536, 1ll << 32, 65536};
      for (int i = 0; i < 17; i++) p.v[i] = w(p.v[i], W[i]);
      break;
    }
    case T_MMD:
      p.v[0] = w(p.v[0], 1ll << 32); p.v[1] = w(p.v[1], 65536); p.v[2] = w(p.v[2], 256);
      if (p.v[3] >= 0) p.v[3] = 1; else { p.v[3] = -1; p.s.clear(); }
      break;
    default: break;
  }
  return p;
}
// a neighbour differing in exactly one member (optional toggled / value changed)
static Spec mutate_spec(Chooser& c, int t, Spec p) {
  if (p.v.empty()) { if (t == T_IP || t == T_NRD) { if (p.s.empty()) p.s = "x"; else p.s[c.range(0, p.s.size() - 1)] ^= 1; } else p.v.push_back(0); return p; }
  size_t i = (size_t)c.range(0, p.v.size() - 1);
  bool optional_member = (t == T_SIG) || (t == T_RR && i >= 2) || (t == T_MMD);
  if (optional_member && c.coin()) p.v[i] = p.v[i] < 0 ? 0 : -1; else p.v[i] = p.v[i] < 0 ? 1 : p.v[i] + 1;
  return normalise_spec(t, p);
}

static index_t blk_add(CdnsBlock& b, int t, const Spec& p) {
  switch (t) {
    case T_IP: { std::string s = p.s; return b.add_ip_address(s); }
    case T_CT: return b.add_classtype(mk_ct(p));
    case T_NRD: { std::string s = p.s; return b.add_name_rdata(s); }
    case T_SIG: return b.add_qr_signature(mk_sig(p));
    case T_QLIST: return b.add_question_list(mk_list(p));
    case T_QRR: return b.add_question(mk_q(p));
    case T_RRLIST: return b.add_rr_list(mk_list(p));
    case T_RR: return b.add_rr(mk_rr(p));
    default: return b.add_malformed_message_data(mk_mmd(p));
  }
}
static bool blk_get_equals(CdnsBlock& b, int t, index_t i, const Spec& p) {
  switch (t) {
    case T_IP: return b.get_ip_address(i) == p.s;
    case T_CT: return b.get_classtype(i) == mk_ct(p);
    case T_NRD: return b.get_name_rdata(i) == p.s;
    case T_SIG: return b.get_qr_signature(i) == mk_sig(p);
    case T_QLIST: return b.get_question_list(i) == mk_list(p);
    case T_QRR: return b.get_question(i) == mk_q(p);
    case T_RRLIST: return b.get_rr_list(i) == mk_list(p);
    case T_RR: return b.get_rr(i) == mk_rr(p);
    default: return b.get_malformed_message_data(i) == mk_mmd(p);
  }
}
static bool blk_find(CdnsBlock& b, int t, const Spec& p, index_t& idx) {
  switch (t) {
    case T_IP: { StringItem k; k.data = p.s; return b.m_ip_address.find(k, idx); }
    case T_CT: return b.m_classtype.find(mk_ct(p), idx);
    case T_NRD: { StringItem k; k.data = p.s; return b.m_name_rdata.find(k, idx); }
    case T_SIG: return b.m_qr_sig.find(mk_sig(p), idx);
    case T_QLIST: { IndexListItem k; k.list = mk_list(p); return b.m_qlist.find(k, idx); }
    case T_QRR: return b.m_qrr.find(mk_q(p), idx);
    case T_RRLIST: { IndexListItem k; k.list = mk_list(p); return b.m_rrlist.find(k, idx); }
    case T_RR: return b.m_rr.find(mk_rr(p), idx);
    default: return b.m_malformed_message_data.find(mk_mmd(p), idx);
  }
}
static size_t blk_size(CdnsBlock& b, int t) {
  switch (t) {
    case T_IP: return b.m_ip_address.size(); case T_CT: return b.m_classtype.size(); case T_NRD: return b.m_name_rdata.size(); case T_SIG: return b.m_qr_sig.size();
    case T_QLIST: return b.m_qlist.size(); case T_QRR: return b.m_qrr.size(); case T_RRLIST: return b.m_rrlist.size(); case T_RR: return b.m_rr.size();
    default: return b.m_malformed_message_data.size();
  }
}
// a == b  =>  hash(a) == hash(b), on two independently built objects
static bool hash_consistent(int t, const Spec& p) {
  switch (t) {
    case T_IP: case T_NRD: { StringItem a, b; a.data = p.s; b.data = std::string(p.s.begin(), p.s.end()); return CDNS::hash<StringItem>()(a) == CDNS::hash<StringItem>()(b); }
    case T_CT: { ClassType a = mk_ct(p), b = mk_ct(p); return CDNS::hash<ClassType>()(a) == CDNS::hash<ClassType>()(b); }
    case T_SIG: { auto a = mk_sig(p); auto* b = new QueryResponseSignature(mk_sig(p)); bool r = CDNS::hash<QueryResponseSignature>()(a) == CDNS::hash<QueryResponseSignature>()(*b); delete b; return r; }
    case T_QLIST: case T_RRLIST: { IndexListItem a, b; a.list = mk_list(p); b.list = mk_list(p); b.list.reserve(64); return CDNS::hash<IndexListItem>()(a) == CDNS::hash<IndexListItem>()(b); }
    case T_QRR: { Question a = mk_q(p), b = mk_q(p); return CDNS::hash<Question>()(a) == CDNS::hash<Question>()(b); }
    case T_RR: { RR a = mk_rr(p); auto* b = new RR(mk_rr(p)); bool r = CDNS::hash<RR>()(a) == CDNS::hash<RR>()(*b); delete b; return r; }
    default: { auto a = mk_mmd(p); auto* b = new MalformedMessageData(mk_mmd(p)); bool r = CDNS::hash<MalformedMessageData>()(a) == CDNS::hash<MalformedMessageData>()(*b); delete b; return r; }
  }
}

struct TabModel {
  std::map<Spec, index_t> idx;          // value -> index handed out
  std::map<index_t, Spec> at;           // index -> value
};

static void verify_all(CdnsBlock& b, TabModel* tm, const char* when) {
  for (int t = 0; t < T_N; t++) {
    VF_CHECK(blk_size(b, t) == tm[t].idx.size(), "sig=c11.size table " << TN[t] << " has " << blk_size(b, t) << " entries, " << tm[t].idx.size() << " distinct values were added (" << when << ")");
    for (auto& kv : tm[t].idx) {
      VF_CHECK(blk_get_equals(b, t, kv.second, kv.first), "sig=c11.index_unstable " << TN[t] << "[" << kv.second << "] no longer denotes the value stored there " << kv.first.show() << " (" << when << ")");
      index_t f = 0xFFFFFFFF;
      VF_CHECK(blk_find(b, t, kv.first, f) && f == kv.second, "sig=c11.find find() of a stored " << TN[t] << " value gives " << f << " expected " << kv.second << " (" << when << ")");
    }
  }
}

// i-th value of a bulk fill: distinct for distinct i, no generator choices involved
static Spec bulk_spec(int t, unsigned i) {
  Spec p;
  switch (t) {
    case T_IP: case T_NRD: p.s = "bulk-" + std::to_string(i); break;
    case T_CT: case T_QRR: p.v = {(int64_t)(i & 0xFFFF), (int64_t)(i >> 16)}; break;
    default: p.v = {-1, -1, -1, 1}; p.s = "bulk-" + std::to_string(i); break;
  }
  return p;
}
static void c11_tables(Case& cs) {
  Chooser& c = cs.c;
  BlockParameters bp;
  CdnsBlock blk(bp, 0);
  TabModel tm[T_N];
  unsigned nops = (unsigned)c.range(1, 10 + cs.size * 10);
  uint64_t hits = 0, distinct = 0, clears = 0, rollbacks = 0; bool bulk = false;
  std::unique_ptr<CdnsBlock> snap; TabModel snap_tm[T_N];
  std::pair<int, Spec> last_added; bool have_last = false, force_last = false;
  std::vector<std::pair<int, Spec>> recent;
  std::ostringstream tr;
  // now and then a table grows far beyond the usual sizes first (tens of thousands of entries: rehashing, block-sized deques,
  // whatever a table does differently when it is big), as the tables of a block of 10000 records with several RRs each do
  if (c.range(0, 159) == 0) {
    int t = (int)c.pick<int>({T_IP, T_NRD, T_NRD, T_CT, T_QRR, T_MMD});
    unsigned N = (unsigned)c.range(40000, cs.size >= 60 ? 140000 : 72000);
    for (unsigned i = 0; i < N; i++) {
      Spec p = bulk_spec(t, i);
      index_t idx = blk_add(blk, t, p);
      VF_CHECK(idx == tm[t].idx.size(), "sig=c11.bulk_index value number " << i << " of a bulk fill of table " << TN[t] << " got index " << idx << ", expected " << tm[t].idx.size());
      tm[t].idx[p] = idx; tm[t].at[idx] = p;
    }
    bulk = true;
    tr << "bulk fill of " << TN[t] << " with " << N << " values\n";
  }
  for (unsigned step = 0; step < nops; step++) {
    uint64_t op = c.range(0, 21);
    if (op == 20) {           // the application keeps a snapshot of the block ...
      snap.reset(new CdnsBlock(blk));
      for (int t = 0; t < T_N; t++) snap_tm[t] = tm[t];
      tr << "snapshot\n";
      continue;
    }
    if (op == 21) {           // ... and later rolls back to it by assignment: the block is then the snapshot's content, nothing else
      if (!snap) continue;
      if (c.coin()) blk = *snap; else { CdnsBlock tmp(*snap); blk = std::move(tmp); }
      for (int t = 0; t < T_N; t++) tm[t] = snap_tm[t];
      force_last = have_last && c.coin();   // the value handled last before the assignment is often the first one added after it
      rollbacks++;
      tr << "rollback\n";
      verify_all(blk, tm, "after assignment");
      continue;
    }
    if (op == 18 && c.coin()) {   // parameters installed on a block that holds table entries but no items yet: allowed, and the tables stay
      BlockParameters nbp; nbp.storage_parameters.max_block_items = (uint64_t)c.range(1, 50);
      bool ok = blk.set_block_parameters(nbp, (index_t)c.range(0, 3));
      VF_CHECK(ok, "sig=c11.set_block_parameters set_block_parameters() refused on a block without items");
      tr << "set_block_parameters\n";
      verify_all(blk, tm, "after set_block_parameters");
      continue;
    }
    if (op == 19) {           // clear
      blk.clear();
      for (auto& m : tm) { m.idx.clear(); m.at.clear(); }
      recent.clear();
      clears++;
      tr << "clear\n";
      for (int t = 0; t < T_N; t++) VF_CHECK(blk_size(blk, t) == 0, "sig=c11.clear table " << TN[t] << " not empty after clear()");
      continue;
    }
    if (op == 18) { verify_all(blk, tm, "periodic"); continue; }
    int t; Spec p;
    if (force_last) { force_last = false; t = last_added.first; p = last_added.second; op = 0; }
    else if (op >= 14 && !recent.empty()) {        // neighbour of a stored value (differs in exactly one member) or the value again
      auto& r = recent[c.range(0, recent.size() - 1)];
      t = r.first; p = c.coin() ? mutate_spec(c, t, r.second) : r.second;
    } else {
      t = (int)c.range(0, T_N - 1);
      p = gen_spec(c, t, op >= 10, step);
    }
    VF_CHECK(hash_consistent(t, p), "sig=c11.hash_inconsistent two equal " << TN[t] << " values built as separate objects hash differently: " << p.show());
    if (op == 17) {           // find of a possibly absent value
      index_t f = 0;
      bool found = blk_find(blk, t, p, f);
      auto it = tm[t].idx.find(p);
      VF_CHECK(found == (it != tm[t].idx.end()) && (!found || f == it->second), "sig=c11.find find(" << TN[t] << " " << p.show() << ") = " << found << "/" << f << ", model " << (it != tm[t].idx.end()));
      continue;
    }
    size_t before = blk_size(blk, t);
    index_t i = blk_add(blk, t, p);
    tr << "add " << TN[t] << " " << p.show() << " -> " << i << "\n";
    auto it = tm[t].idx.find(p);
    if (it != tm[t].idx.end()) {
      hits++;
      VF_CHECK(i == it->second, "sig=c11.dedup adding an equal " << TN[t] << " value again returned index " << i << ", first time " << it->second << " : " << p.show() << "\n" << tr.str().substr(tr.str().size() > 1500 ? tr.str().size() - 1500 : 0));
      VF_CHECK(blk_size(blk, t) == before, "sig=c11.dedup_grew table " << TN[t] << " grew from " << before << " to " << blk_size(blk, t) << " when an equal value was added again");
    } else {
      distinct++;
      VF_CHECK(!tm[t].at.count(i), "sig=c11.index_reused a new " << TN[t] << " value " << p.show() << " got index " << i << " which denotes " << tm[t].at[i].show());
      VF_CHECK(i < blk_size(blk, t) && blk_size(blk, t) == before + 1, "sig=c11.new_value index " << i << " / size " << blk_size(blk, t) << " after adding a new value to a table of " << before);
      tm[t].idx[p] = i; tm[t].at[i] = p;
    }
    VF_CHECK(blk_get_equals(blk, t, i, p), "sig=c11.get get(" << i << ") of " << TN[t] << " does not return the value just added " << p.show());
    if (recent.size() < 64) recent.emplace_back(t, p); else recent[step % 64] = std::make_pair(t, p);
    last_added = std::make_pair(t, p); have_last = true;
  }
  verify_all(blk, tm, "end");
  size_t total = 0; for (auto& m : tm) total += m.idx.size();
  cs.nontrivial = hits >= 1 && (total >= 16 || clears >= 1);
  cs.st.cnt("dedup_hits", hits); cs.st.cnt("distinct_values", distinct); cs.st.cnt("clears", clears);
  if (total >= 64) cs.st.cls("tables>=64_entries");
  if (clears) cs.st.cls("with_clear");
  if (rollbacks) cs.st.cls("with_assignment_from_snapshot");
  if (bulk) cs.st.cls(clears ? "table_of_40000+_entries_then_cleared" : "table_of_40000+_entries");
  cs.sample = std::to_string(nops) + " ops, " + std::to_string(hits) + " dedup hits, " + std::to_string(distinct) + " distinct values, " + std::to_string(clears) + " clears; tail: " + tr.str().substr(tr.str().size() > 300 ? tr.str().size() - 300 : 0);
}

// ---- C19 -------------------------------------------------------------------------------------------
struct ContentOp { int kind; int t; Spec p; M::Fields f; M::AecKey k; };   // kind 0 table add, 1 generic qr, 2 aec, 3 generic mm
// idx_out receives the index returned by a table add, or (for record adds) the "block is full" flag the call returned
static void apply_op(CdnsBlock& b, const ContentOp& o, std::vector<index_t>* idx_out) {
  index_t r = 0;
  switch (o.kind) {
    case 0: r = blk_add(b, o.t, o.p); break;
    case 1: r = b.add_question_response_record(adapt::generic_qr(o.f)); break;
    case 2: r = b.add_address_event_count(adapt::generic_aec(o.k)); break;
    default: r = b.add_malformed_message(adapt::generic_mm(o.f)); break;
  }
  if (idx_out) idx_out->push_back(r);
}
static uint64_t g_observe_tps = 1000000;   // tick rate of the block under observation (lens of the independent interpretation)
static ContentOp gen_op(Chooser& c, const gen::Pools& pools, const gen::TimeCtx& tc, unsigned step) {
  ContentOp o;
  o.kind = (int)c.range(0, 3);
  gen::RecOpts ro; ro.pres = 4;
  if (o.kind == 0) { o.t = (int)c.range(0, T_N - 1); o.p = gen_spec(c, o.t, c.range(0, 3) == 0, step); }
  else if (o.kind == 1) o.f = gen::gen_qr(c, pools, tc, g_observe_tps, ro);
  else if (o.kind == 2) o.k = gen::gen_aec(c, pools);
  else o.f = gen::gen_mm(c, pools, tc, g_observe_tps, ro);
  return o;
}
static std::string tables_dump(const cdnsref::BlockTables& bt) {
  std::string o = "TABLES\n";
  for (int t = 0; t < cdnsref::T_COUNT; t++) { o += std::string(cdnsref::TABLE_NAME[t]) + ":"; for (auto& e : bt.t[t].canon) o += M::hexs(e) + "|"; o += "\n"; }
  return o;
}
// canonical observation of a block: serialised through the encoder, parsed independently
static std::string observe(CdnsBlock& b, const std::string& scratch) {
  std::string fn = scratch + "/c19blk";
  int fd = ::open(fn.c_str(), O_WRONLY | O_CREAT | O_TRUNC, 0644);
  { CdnsEncoder enc(fd, CborOutputCompression::NO_COMPRESSION); b.write(enc); }
  std::string bytes; read_file(fn, bytes);
  cref::Node n; std::string err;
  if (!cref::parse_all(bytes, n, err)) return "NOT WELL-FORMED: " + err + " " + hex(bytes, 200);
  cdnsref::Report rep; cdnsref::Interp ip(rep);
  M::Preamble pre; pre.bps.emplace_back();
  pre.bps[0].sp.hints.qr = gen::QR_ALL; pre.bps[0].sp.hints.sig = gen::SIG_ALL; pre.bps[0].sp.hints.rr = 3; pre.bps[0].sp.hints.other = 3;
  pre.bps[0].sp.tps = g_observe_tps;
  M::BlockM bm; cdnsref::BlockTables bt;
  ip.block(n, pre, bm, bt);
  std::string o = M::dump_block(bm, true);
  o += tables_dump(bt);
  for (auto& e : rep.errors) o += "ERR " + e + "\n";
  return o;
}
// the table part of observe() alone
static std::string observe_tables(CdnsBlock& b, const std::string& scratch) {
  std::string o = observe(b, scratch);
  size_t p = o.find("TABLES\n");
  return p == std::string::npos ? o : o.substr(p);
}
static std::string observe_gets(CdnsBlock& b) {
  std::string o;
  o += "counts " + std::to_string(b.get_qr_count()) + "/" + std::to_string(b.get_aec_count()) + "/" + std::to_string(b.get_mm_count()) + " bp=" + std::to_string(b.get_block_parameters_index()) + "\n";
  for (int t = 0; t < T_N; t++) o += std::string(TN[t]) + "=" + std::to_string(blk_size(b, t)) + " ";
  return o;
}

static void c19_value(Case& cs) {
  Chooser& c = cs.c;
  gen::Pools pools = gen::make_pools(c);
  gen::TimeCtx tc = gen::gen_timectx(c);
  // the block's own parameters: default, or generated (hints, tick rate, block size): a copy must keep them
  BlockParameters bp;
  M::BlockP mbp;
  mbp.sp.hints.qr = gen::QR_ALL; mbp.sp.hints.sig = gen::SIG_ALL; mbp.sp.hints.rr = 3; mbp.sp.hints.other = 3;
  if (c.coin()) { gen::BpOpts bo; bo.max_items = {1, 2, 3, 5, 10000}; bo.any_tps = false; mbp = gen::gen_bp(c, bo); mbp.sp.tps = c.pick<uint64_t>({1000000ull, 1000ull, 1000000000ull}); bp = adapt::lib_bp(mbp); cs.st.cls("non_default_block_parameters"); }
  g_observe_tps = (uint64_t)mbp.sp.tps;
  std::vector<ContentOp> content;
  unsigned n = (unsigned)c.range(0, 4 + cs.size / 2);
  for (unsigned i = 0; i < n; i++) content.push_back(gen_op(c, pools, tc, i));
  bool via_reader = c.range(0, 3) == 0;
  int how = (int)c.range(0, via_reader ? 3 : 4);   // 0 copy ctor, 1 move ctor, 2 copy assign, 3 move assign, 4 copy assign onto a non-empty block
  int fate = (int)c.range(0, 3);                   // source afterwards: 0 untouched, 1 modified, 2 cleared, 3 destroyed
  std::vector<index_t> src_idx;
  std::string desc = std::string("source ") + (via_reader ? "from CdnsReader::read_block" : "built by add_*") + " with " + std::to_string(n) + " ops; copy by " +
                     (how == 0 ? "copy ctor" : how == 1 ? "move ctor" : how == 2 ? "copy assignment" : how == 3 ? "move assignment" : "copy assignment onto non-empty") +
                     "; source then " + (fate == 0 ? "untouched" : fate == 1 ? "modified" : fate == 2 ? "cleared" : "destroyed");
  cs.sample = desc;
  if (cs.replay) printf("%s\n", desc.c_str());

  std::unique_ptr<CdnsBlock> copy;
  std::string src_obs_before, src_gets_before;
  CdnsBlock* src = nullptr;
  std::unique_ptr<CdnsBlockRead> src_read;
  std::vector<ContentOp> ref_content = content;   // what the copy must behave like
  if (!via_reader) {
    src = new CdnsBlock(bp, 0);
    for (auto& o : content) apply_op(*src, o, &src_idx);
  } else {
    // write the content to a file through the exporter and let the reader return the block
    FilePreamble fp;
    fp.m_block_parameters[0] = bp;
    std::string fn = cs.scratch + "/c19file";
    {
      CdnsExporter ex(fp, fn, CborOutputCompression::NO_COMPRESSION);
      CdnsBlock tmp(bp, 0);
      for (auto& o : content) if (o.kind != 0) apply_op(tmp, o, nullptr);   // only records: loose table values of a file block are not referenced
      ex.write_block(tmp);
    }
    std::string bytes; read_file(fn, bytes);
    ref_content.clear();
    if (!bytes.empty() && c.coin()) {
      // a file from an encoder that does not de-duplicate its block tables (legal RFC 8618): copies of existing entries are
      // appended to the tables (indices of the items stay valid); the reader keeps such tables as they are
      cref::Node root; std::string perr;
      if (cref::parse_all(bytes, root, perr) && root.kids.size() == 3) {
        unsigned added = 0;
        for (auto& blk : root.kids[2].kids) for (size_t i = 0; i + 1 < blk.kids.size(); i += 2) if (blk.kids[i].is_uint() && blk.kids[i].arg == 2 && blk.kids[i + 1].major == cref::MAP) {
          cref::Node& tabs = blk.kids[i + 1];
          for (size_t j = 0; j + 1 < tabs.kids.size(); j += 2) {
            cref::Node& arr = tabs.kids[j + 1];
            if (arr.major != cref::ARR || arr.kids.empty() || c.coin()) continue;
            unsigned k = (unsigned)c.range(1, 3);
            for (unsigned x = 0; x < k; x++) { cref::Node dup = arr.kids[c.range(0, arr.kids.size() - 1)]; arr.kids.push_back(dup); added++; }
            arr.arg = arr.kids.size();
          }
        }
        if (added) { bytes.clear(); cref::encode(root, bytes); write_file(fn, bytes); cs.st.cls("reader_source_with_duplicate_table_entries"); }
      }
    }
    if (bytes.empty()) { cs.st.cnt("reader_source_empty"); via_reader = false; src = new CdnsBlock(bp, 0); }
    else {
      std::istringstream is(bytes);
      CdnsReader rd(is);
      bool eof = false;
      src_read.reset(new CdnsBlockRead());
      if (c.coin()) {   // the destination was used before (as in a reader loop that re-uses one block variable)
        unsigned pre = (unsigned)c.range(1, 4);
        for (unsigned i = 0; i < pre; i++) { ContentOp o = gen_op(c, pools, tc, 500 + i); apply_op(*src_read, o, nullptr); }
        cs.st.cls("reader_block_assigned_onto_used_block");
      }
      *src_read = rd.read_block(eof);   // reader return + assignment
      src = src_read.release();
    }
  }
  src_obs_before = observe(*src, cs.scratch);
  src_gets_before = observe_gets(*src);

  // ---- obtain the second block
  if (via_reader) {
    CdnsBlockRead* s = static_cast<CdnsBlockRead*>(src);
    CdnsBlockRead* cp;
    if (how == 0) cp = new CdnsBlockRead(*s);
    else if (how == 1) cp = new CdnsBlockRead(std::move(*s));
    else if (how == 2) { cp = new CdnsBlockRead(); *cp = *s; }
    else { cp = new CdnsBlockRead(); *cp = std::move(*s); }
    copy.reset(cp);
  } else {
    CdnsBlock* cp;
    if (how == 0) cp = new CdnsBlock(*src);
    else if (how == 1) cp = new CdnsBlock(std::move(*src));
    else if (how == 2) { cp = new CdnsBlock(); *cp = *src; }
    else if (how == 3) { cp = new CdnsBlock(); *cp = std::move(*src); }
    else { cp = new CdnsBlock(bp, 0); for (unsigned i = 0; i < 3; i++) { ContentOp o = gen_op(c, pools, tc, 1000 + i); apply_op(*cp, o, nullptr); } *cp = *src; }
    copy.reset(cp);
  }
  // reader-returned blocks: what the generic accessors deliver from the second block must be what the file holds
  // (independent interpretation), whatever happens to the source afterwards - checked again after the source's fate
  std::string file_dump;
  if (via_reader) {
    std::string bytes; read_file(cs.scratch + "/c19file", bytes);
    M::FileM fm; cdnsref::Report rep;
    if (cdnsref::interpret(bytes, fm, rep) && rep.ok() && !fm.blocks.empty()) {
      file_dump = M::dump_block(fm.blocks[0]);
      // complete copy: every table of the second block holds exactly the entries of the file's block, in the same order
      if (!rep.tables.empty()) {
        std::string want = tables_dump(rep.tables[0]), got = observe_tables(*copy, cs.scratch);
        VF_CHECK(want == got, "sig=c19.tables_differ_from_file the tables of the block obtained from the reader (and then copied) differ from the tables in the file : " << desc << "\n--- file\n" << want.substr(0, 1200) << "--- block\n" << got.substr(0, 1200));
      }
    }
  }
  std::string copy_obs0 = observe(*copy, cs.scratch);
  VF_CHECK(copy_obs0 == src_obs_before, "sig=c19.copy_incomplete the second block does not hold the source's content : " << desc << "\n--- source\n" << src_obs_before.substr(0, 1200) << "--- copy\n" << copy_obs0.substr(0, 1200));

  // ---- fate of the source
  bool moved_from = (how == 1 || how == 3);
  if (fate == 1) {
    for (unsigned i = 0; i < 3; i++) {
      ContentOp o = gen_op(c, pools, tc, 2000 + i);
      std::vector<index_t> r;
      apply_op(*src, o, &r);
      if (o.kind == 0) VF_CHECK(r[0] < blk_size(*src, o.t) && blk_get_equals(*src, o.t, r[0], o.p), "sig=c19.source_add add of " << TN[o.t] << " " << o.p.show() << " on the source block returned index " << r[0] << " (table size " << blk_size(*src, o.t) << ") which does not denote that value : " << desc);
    }
  }
  else if (fate == 2) src->clear();
  else if (fate == 3) { if (via_reader) delete static_cast<CdnsBlockRead*>(src); else delete src; src = nullptr; }
  if (fate == 1 || fate == 2) {
    std::string now = observe(*copy, cs.scratch);
    VF_CHECK(now == copy_obs0, "sig=c19.copy_affected_by_source changing the source changed the copy : " << desc);
  }

  if (via_reader && !file_dump.empty()) {
    CdnsBlockRead* cr = static_cast<CdnsBlockRead*>(copy.get());
    std::string got = M::dump_block(adapt::model_block(*cr));
    VF_CHECK(got == file_dump, "sig=c19.read_generic generic records read from the second block differ from the file content after the source was " << (fate == 0 ? "left alone" : fate == 1 ? "modified" : fate == 2 ? "cleared" : "destroyed") << " : " << desc << "\n--- file\n" << file_dump.substr(0, 1200) << "--- copy\n" << got.substr(0, 1200));
  }
  // ---- operations on the copy, mirrored on a block rebuilt from scratch
  CdnsBlock ref(bp, 0);
  std::vector<index_t> ref_idx;
  bool have_ref = !via_reader;
  if (have_ref) for (auto& o : ref_content) apply_op(ref, o, &ref_idx);
  unsigned m = (unsigned)c.range(1, 8);
  bool readd_existing = false;
  if (c.range(0, 3) == 0) {
    // the first thing that happens to a table of the copy is the low-level, non-de-duplicating append (what the reader itself uses)
    StringItem it; it.data = "appended-by-add_value-" + std::to_string(c.range(0, 9));
    bool ip = c.coin();
    { StringItem x = it; if (ip) copy->m_ip_address.add_value(std::move(x)); else copy->m_name_rdata.add_value(std::move(x)); }
    if (have_ref) { StringItem x = it; if (ip) ref.m_ip_address.add_value(std::move(x)); else ref.m_name_rdata.add_value(std::move(x)); }
    cs.st.cls("copy_first_touched_by_add_value");
  }
  for (unsigned i = 0; i < m; i++) {
    ContentOp o;
    bool again = !content.empty() && c.coin();
    if (again) { o = content[c.range(0, content.size() - 1)]; if (o.kind == 0) readd_existing = true; }
    else o = gen_op(c, pools, tc, 3000 + i);
    std::vector<index_t> a, b;
    apply_op(*copy, o, &a);
    if (have_ref) {
      apply_op(ref, o, &b);
      if (o.kind != 0) VF_CHECK(a[0] == b[0], "sig=c19.full_flag a record add on the copy returned 'block full' = " << a[0] << ", on a freshly built block with the same content and parameters " << b[0] << " : " << desc);
      if (o.kind == 0) VF_CHECK(a[0] == b[0], "sig=c19.add_index add of " << TN[o.t] << " " << o.p.show() << " on the copy returned " << a[0] << ", a freshly built block with the same content returns " << b[0] << " : " << desc);
    }
    if (o.kind == 0) VF_CHECK(a[0] < blk_size(*copy, o.t), "sig=c19.add_index_out_of_range add of " << TN[o.t] << " " << o.p.show() << " on the copy returned index " << a[0] << " but the table has " << blk_size(*copy, o.t) << " entries : " << desc);
    if (o.kind == 0) VF_CHECK(blk_get_equals(*copy, o.t, a[0], o.p), "sig=c19.get get(" << a[0] << ") on the copy does not return the " << TN[o.t] << " value just added : " << desc);
  }
  if (have_ref) {
    std::string oc = observe(*copy, cs.scratch), orf = observe(ref, cs.scratch);
    VF_CHECK(oc == orf, "sig=c19.behaviour_differs after the same operations the copy differs from a freshly built block : " << desc << "\n--- copy\n" << oc.substr(0, 1500) << "--- rebuilt\n" << orf.substr(0, 1500));
    VF_CHECK(observe_gets(*copy) == observe_gets(ref), "sig=c19.behaviour_differs counters of the copy differ from the rebuilt block : " << desc);
  } else {
    // reader-returned blocks: reading the generic records from the copy gives what the source gave
    CdnsBlockRead* cr = static_cast<CdnsBlockRead*>(copy.get());
    // the records added to the copy after the first read-out are delivered as well (the read cursors continue); memory safety is the oracle here
    M::BlockM bm = adapt::model_block(*cr);
    (void)bm;
  }
  // changes to the copy never affect the source
  if (src && fate == 0 && !moved_from) {
    VF_CHECK(observe(*src, cs.scratch) == src_obs_before && observe_gets(*src) == src_gets_before, "sig=c19.source_affected_by_copy operations on the copy changed the source : " << desc);
  }
  if (src) { if (via_reader) delete static_cast<CdnsBlockRead*>(src); else delete src; }
  cs.nontrivial = (fate >= 2 && readd_existing) || (fate >= 2 && via_reader);
  cs.st.cls(std::string("how:") + (how == 0 ? "copy_ctor" : how == 1 ? "move_ctor" : how == 2 ? "copy_assign" : how == 3 ? "move_assign" : "assign_onto_nonempty"));
  cs.st.cls(std::string("fate:") + (fate == 0 ? "untouched" : fate == 1 ? "modified" : fate == 2 ? "cleared" : "destroyed"));
  if (via_reader) cs.st.cls("source_from_reader");
  if (readd_existing) cs.st.cls("readd_existing_value_on_copy");
}

// ---- C11 on a block whose tables were filled by the decoder ------------------------------------------------
// A block read from a file is a block like any other: adding a value it already holds returns the index of the existing entry and
// does not grow the table.  The block object is filled by CdnsBlockRead(dec, params) itself (no copy in between).
static void c11_readblock(Case& cs) {
  Chooser& c = cs.c;
  gen::Pools pools = gen::make_pools(c);
  gen::TimeCtx tc = gen::gen_timectx(c);
  BlockParameters bp;
  g_observe_tps = 1000000;
  std::vector<ContentOp> content;
  unsigned n = (unsigned)c.range(1, 4 + cs.size / 2);
  for (unsigned i = 0; i < n; i++) { ContentOp o = gen_op(c, pools, tc, i); if (o.kind == 0) o.kind = 1, o.f = gen::gen_qr(c, pools, tc, g_observe_tps, gen::RecOpts()); content.push_back(o); }
  FilePreamble fp;
  std::string fn = cs.scratch + "/c11file";
  {
    CdnsExporter ex(fp, fn, CborOutputCompression::NO_COMPRESSION);
    CdnsBlock tmp(bp, 0);
    for (auto& o : content) apply_op(tmp, o, nullptr);
    ex.write_block(tmp);
  }
  std::string bytes; read_file(fn, bytes);
  if (bytes.empty()) { cs.st.cnt("blocked:no_block_written"); return; }
  std::istringstream is(bytes);
  CdnsDecoder dec(is);
  bool indef = false, bi = false;
  dec.read_array_start(indef); dec.read_textstring();
  FilePreamble rfp; rfp.read(dec);
  dec.read_array_start(bi);
  CdnsBlockRead blk(dec, rfp.m_block_parameters);
  size_t before[T_N]; size_t total = 0;
  for (int t = 0; t < T_N; t++) { before[t] = blk_size(blk, t); total += before[t]; }
  std::string desc = std::to_string(n) + " records written, read back into one block object (" + std::to_string(total) + " table entries)";
  cs.sample = desc;
  // every string-valued entry added again: same index, no growth
  for (size_t i = 0; i < before[T_IP]; i++) { std::string v = blk.get_ip_address((index_t)i); index_t r = blk.add_ip_address(v); VF_CHECK(r < before[T_IP] && blk.get_ip_address(r) == v && blk_size(blk, T_IP) == before[T_IP], "sig=c11.read_block_dedup adding IP address entry " << i << " of a block read from a file again returned index " << r << ", table size " << before[T_IP] << " -> " << blk_size(blk, T_IP) << " : " << desc); }
  for (size_t i = 0; i < before[T_NRD]; i++) { std::string v = blk.get_name_rdata((index_t)i); index_t r = blk.add_name_rdata(v); VF_CHECK(r < before[T_NRD] && blk.get_name_rdata(r) == v && blk_size(blk, T_NRD) == before[T_NRD], "sig=c11.read_block_dedup adding name/rdata entry " << i << " of a block read from a file again returned index " << r << ", table size " << before[T_NRD] << " -> " << blk_size(blk, T_NRD) << " : " << desc); }
  for (size_t i = 0; i < before[T_CT]; i++) { ClassType v = blk.get_classtype((index_t)i); index_t r = blk.add_classtype(v); VF_CHECK(r < before[T_CT] && blk_size(blk, T_CT) == before[T_CT], "sig=c11.read_block_dedup adding class/type entry " << i << " of a block read from a file again returned index " << r << ", table size " << before[T_CT] << " -> " << blk_size(blk, T_CT) << " : " << desc); }
  // the same records buffered again: every value they need is in the tables already
  for (auto& o : content) apply_op(blk, o, nullptr);
  for (int t = 0; t < T_N; t++) VF_CHECK(blk_size(blk, t) == before[t], "sig=c11.read_block_dedup table " << TN[t] << " of a block read from a file grew from " << before[t] << " to " << blk_size(blk, t) << " when the records it was written from were added again : " << desc);
  cs.nontrivial = total >= 4;
  if (total >= 32) cs.st.cls("read_block_with>=32_table_entries");
}

// ---- C10 (structure level): every serialisable structure returns the number of bytes it appended --------
template <class F> static void write_and_check(Case& cs, const char* what, const std::string& desc, F writer) {
  std::string fn = cs.scratch + "/c10struct";
  int fd = ::open(fn.c_str(), O_WRONLY | O_CREAT | O_TRUNC, 0644);
  size_t ret;
  { CdnsEncoder enc(fd, CborOutputCompression::NO_COMPRESSION); ret = writer(enc); }
  std::string bytes; read_file(fn, bytes);
  VF_CHECK(ret == bytes.size(), "sig=c10.struct_count." << what << " " << what << "::write returned " << ret << " but appended " << bytes.size() << " bytes (" << hex(bytes, 60) << ") : " << desc);
  cref::Node n; std::string err;
  VF_CHECK(cref::parse_all(bytes, n, err), "sig=c10.struct_not_one_item." << what << " " << what << "::write did not append exactly one well-formed data item: " << err << " (" << hex(bytes, 60) << ") : " << desc);
  cs.st.cls(std::string("struct:") + what);
}
static void c10_struct(Case& cs) {
  Chooser& c = cs.c;
  gen::Pools pools = gen::make_pools(c);
  gen::TimeCtx tc = gen::gen_timectx(c);
  int k = (int)c.range(0, 18);
  switch (k) {
    case 0: { Spec p = gen_spec(c, T_CT, c.coin(), 1); write_and_check(cs, "ClassType", p.show(), [&](CdnsEncoder& e) { ClassType x = mk_ct(p); return x.write(e); }); break; }
    case 1: { Spec p = gen_spec(c, T_SIG, c.coin(), 1); write_and_check(cs, "QueryResponseSignature", p.show(), [&](CdnsEncoder& e) { auto x = mk_sig(p); return x.write(e); }); break; }
    case 2: { Spec p = gen_spec(c, T_QRR, c.coin(), 1); write_and_check(cs, "Question", p.show(), [&](CdnsEncoder& e) { auto x = mk_q(p); return x.write(e); }); break; }
    case 3: { Spec p = gen_spec(c, T_RR, c.coin(), 1); write_and_check(cs, "RR", p.show(), [&](CdnsEncoder& e) { auto x = mk_rr(p); return x.write(e); }); break; }
    case 4: { Spec p = gen_spec(c, T_MMD, c.coin(), 1); if (c.range(0, 3) == 0 && p.v[3] >= 0) p.s = c.bytes_exact(c.range(0, 9000)); write_and_check(cs, "MalformedMessageData", p.show(), [&](CdnsEncoder& e) { auto x = mk_mmd(p); return x.write(e); }); break; }
    case 5: { Spec p = gen_spec(c, T_QLIST, true, 1); write_and_check(cs, "IndexListItem", p.show(), [&](CdnsEncoder& e) { IndexListItem x; x.list = mk_list(p); return x.write(e); }); break; }
    case 6: { std::string d = c.bytes(c.coin() ? 40 : 9000); write_and_check(cs, "StringItem", hex(d, 20), [&](CdnsEncoder& e) { StringItem x; x.data = d; return x.write(e); }); break; }
    case 7: { ResponseProcessingData x; if (c.coin()) x.bailiwick_index = (index_t)c.uint_bits(32); if (c.coin()) x.processing_flags = static_cast<ResponseProcessingFlagsMask>(c.range(0, 255)); write_and_check(cs, "ResponseProcessingData", "", [&](CdnsEncoder& e) { return x.write(e); }); break; }
    case 8: { QueryResponseExtended x; if (c.coin()) x.question_index = (index_t)c.uint_bits(32); if (c.coin()) x.answer_index = (index_t)c.uint_bits(32); if (c.coin()) x.authority_index = (index_t)c.uint_bits(32); if (c.coin()) x.additional_index = (index_t)c.uint_bits(32); write_and_check(cs, "QueryResponseExtended", "", [&](CdnsEncoder& e) { return x.write(e); }); break; }
    case 9: { BlockPreamble x; x.earliest_time = Timestamp(c.uint_bits(64), c.uint_bits(64)); if (c.coin()) x.block_parameters_index = (index_t)c.uint_bits(32); write_and_check(cs, "BlockPreamble", "", [&](CdnsEncoder& e) { return x.write(e); }); break; }
    case 10: { M::StatsM st = gen::gen_stats(c, true); st.present = true; BlockStatistics x = *adapt::lib_stats(st); write_and_check(cs, "BlockStatistics", st.show(), [&](CdnsEncoder& e) { return x.write(e); }); break; }
    case 11: { Timestamp x(c.uint_bits(64), c.uint_bits(64)); write_and_check(cs, "Timestamp", "", [&](CdnsEncoder& e) { return x.write(e); }); break; }
    case 12: {
      AddressEventCount x; x.ae_type = static_cast<AddressEventTypeValues>(c.range(0, 255)); if (c.coin()) x.ae_code = (uint8_t)c.range(0, 255); x.ae_address_index = (index_t)c.uint_bits(32);
      if (c.coin()) x.ae_transport_flags = static_cast<QueryResponseTransportFlagsMask>(c.range(0, 255)); x.ae_count = c.uint_bits(64);
      write_and_check(cs, "AddressEventCount", "", [&](CdnsEncoder& e) { return x.write(e); }); break;
    }
    case 13: {
      // QueryResponse / MalformedMessage with time offsets relative to an earliest time
      uint64_t tps = c.pick<uint64_t>({1, 1000, 1000000, 1000000000});
      M::Ts t0 = gen::gen_ts(c, tc, tps), t1 = gen::gen_ts(c, tc, tps);
      if (t1.secs < t0.secs || (t1.secs == t0.secs && t1.ticks < t0.ticks)) std::swap(t0, t1);
      QueryResponse q;
      if (c.coin()) q.time_offset = adapt::ts(t1);
      if (c.coin()) q.client_address_index = (index_t)c.uint_bits(32);
      if (c.coin()) q.client_port = (uint16_t)c.uint_bits(16);
      if (c.coin()) q.response_delay = c.int_bits(64);
      if (c.coin()) q.query_size = c.uint_bits(64);
      if (c.coin()) q.response_processing_data = ResponseProcessingData();
      if (c.coin()) { QueryResponseExtended qe; if (c.coin()) qe.answer_index = 3; q.query_extended = qe; }
      if (c.coin()) q.asn = std::string(c.pick<const char*>({"", "64512", "a-long-asn-text-0123456789"}));
      if (c.coin()) q.round_trip_time = c.int_bits(64);
      Timestamp e0 = adapt::ts(t0);
      write_and_check(cs, "QueryResponse", "", [&](CdnsEncoder& e) { return q.write(e, e0, tps); });
      MalformedMessage m;
      if (c.coin()) m.time_offset = adapt::ts(t1);
      if (c.coin()) m.client_port = (uint16_t)c.uint_bits(16);
      if (c.coin()) m.message_data_index = (index_t)c.uint_bits(32);
      write_and_check(cs, "MalformedMessage", "", [&](CdnsEncoder& e) { return m.write(e, e0, tps); });
      break;
    }
    case 14: case 15: {   // preamble parts
      gen::BpOpts bo;
      M::BlockP b = gen::gen_bp(c, bo);
      BlockParameters x = adapt::lib_bp(b);
      int part = (int)c.range(0, 3);
      if (part == 0) write_and_check(cs, "BlockParameters", M::dump(b), [&](CdnsEncoder& e) { return x.write(e); });
      else if (part == 1) write_and_check(cs, "StorageParameters", M::dump(b), [&](CdnsEncoder& e) { return x.storage_parameters.write(e); });
      else if (part == 2) write_and_check(cs, "StorageHints", M::dump(b), [&](CdnsEncoder& e) { return x.storage_parameters.storage_hints.write(e); });
      else { CollectionParameters cp = x.collection_parameters ? *x.collection_parameters : CollectionParameters(); write_and_check(cs, "CollectionParameters", M::dump(b), [&](CdnsEncoder& e) { return cp.write(e); }); }
      break;
    }
    default: {   // a whole block built by generated adds
      BlockParameters bp;
      CdnsBlock blk(bp, (index_t)c.range(0, 3));
      unsigned n = (unsigned)c.range(0, 3 + cs.size / 2);
      for (unsigned i = 0; i < n; i++) { ContentOp o = gen_op(c, pools, tc, i); apply_op(blk, o, nullptr); }
      write_and_check(cs, "CdnsBlock", std::to_string(n) + " adds", [&](CdnsEncoder& e) { return blk.write(e); });
      break;
    }
  }
  cs.nontrivial = true;
}

int main(int argc, char** argv) {
  Registry r;
  r.add("c10_struct", c10_struct);
  r.add("c11_tables", c11_tables);
  r.add("c11_readblock", c11_readblock);
  r.add("c19_value", c19_value);
  return harness_main(argc, argv, r);
}
