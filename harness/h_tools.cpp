// tools harness: runs the real command line tools (sanitizer builds of src/bin/*.cpp) as subprocesses.
//  C18: cdns-merge preserves every block and record; cdns-itemcount counts are true.
//  C03 (tool part): every tool terminates normally (exit status 0/1, no signal, no sanitizer report) on mutated input.
// The directory with the tool executables comes from the environment variable VF_TOOLS_DIR.
#include <spawn.h>
#include <sys/stat.h>
#include <sys/wait.h>
#include <sstream>

#include "cdns.h"

#include "cdns_ref.hpp"
#include "filegen.hpp"
#include "harness.hpp"
#include "mutate.hpp"

extern char** environ;
using namespace vf;
namespace M = model;

struct RunOut { int status = -1; bool signaled = false; int sig = 0; std::string out, err; bool timed_out = false; };
static std::string tools_dir() { const char* d = getenv("VF_TOOLS_DIR"); return d ? d : "."; }
static RunOut run_tool(const std::string& tool, const std::vector<std::string>& args, const std::string& scratch) {
  RunOut r;
  std::string so = scratch + "/tool.stdout", se = scratch + "/tool.stderr";
  std::vector<std::string> av;
  av.push_back(tools_dir() + "/" + tool);
  for (auto& a : args) av.push_back(a);
  std::vector<char*> argv;
  for (auto& a : av) argv.push_back(const_cast<char*>(a.c_str()));
  argv.push_back(nullptr);
  posix_spawn_file_actions_t fa;
  posix_spawn_file_actions_init(&fa);
  posix_spawn_file_actions_addopen(&fa, 1, so.c_str(), O_WRONLY | O_CREAT | O_TRUNC, 0644);
  posix_spawn_file_actions_addopen(&fa, 2, se.c_str(), O_WRONLY | O_CREAT | O_TRUNC, 0644);
  posix_spawn_file_actions_addopen(&fa, 0, "/dev/null", O_RDONLY, 0);
  pid_t pid;
  int rc = posix_spawn(&pid, argv[0], &fa, nullptr, argv.data(), environ);
  posix_spawn_file_actions_destroy(&fa);
  if (rc != 0) { fprintf(stderr, "cannot spawn %s: %s\n", argv[0], strerror(rc)); abort(); }
  int st = 0;
  // generous limit: a tool run takes milliseconds; 120 s without exit is reported as inconclusive by the caller
  for (int i = 0; i < 120000; i++) {
    pid_t w = waitpid(pid, &st, WNOHANG);
    if (w == pid) break;
    if (i == 119999) { kill(pid, SIGKILL); waitpid(pid, &st, 0); r.timed_out = true; }
    usleep(i < 200 ? 200 : 1000);
  }
  if (WIFEXITED(st)) r.status = WEXITSTATUS(st);
  if (WIFSIGNALED(st)) { r.signaled = true; r.sig = WTERMSIG(st); }
  read_file(so, r.out);
  read_file(se, r.err);
  return r;
}
// normal termination: exit status 0 or 1, no signal, no sanitizer report (the driver sets exitcode=99 for sanitizers)
static void check_normal_exit(const RunOut& r, const std::string& what, const char* sigprefix) {
  if (r.timed_out) return;
  bool san = r.err.find("Sanitizer") != std::string::npos || r.err.find("runtime error:") != std::string::npos;
  std::string kind;
  if (san) { size_t p = r.err.find("SUMMARY:"); kind = p == std::string::npos ? r.err.substr(0, 200) : r.err.substr(p, 160); }
  VF_CHECK(!r.signaled && !san && (r.status == 0 || r.status == 1),
           "sig=" << sigprefix << (san ? ".sanitizer" : r.signaled ? ".signal" : ".exit_status") << " " << what << ": " << (r.signaled ? "killed by signal " + std::to_string(r.sig) : "exit status " + std::to_string(r.status)) << " " << kind
                  << " stderr: " << r.err.substr(0, 300));
}

// ---- C18 -------------------------------------------------------------------------------------------
struct Input { std::string path, desc; bool exists = true; };

static bool header_info(const std::string& bytes, M::FileM& fm, bool& whole_ok) {
  // readable as C-DNS (header parses)?  For truncated inputs the wholly contained blocks are obtained by
  // interpreting the longest prefix made of complete blocks.
  cdnsref::Report rep;
  whole_ok = cdnsref::interpret(bytes, fm, rep) && rep.ok();
  return whole_ok;
}

static void c18_merge(Case& cs) {
  Chooser& c = cs.c;
  unsigned n = (unsigned)c.range(1, 5);
  std::vector<Input> inputs;
  // per input: expected contribution (blocks with resolved parameter sets) if readable
  struct Contribution { bool readable = false; M::i128 major = 0, minor = 0; M::Opt<M::i128> priv; std::vector<std::pair<std::string, std::string>> blocks; /* dump, resolved set */ std::string kind; };
  std::vector<Contribution> contrib;
  std::string desc;
  std::vector<std::string> good_paths;
  std::vector<M::Preamble> earlier_pre;
  bool near_dup = false, indexless = false, split_aec = false;
  for (unsigned i = 0; i < n; i++) {
    Input in; Contribution cb;
    in.path = cs.scratch + "/in" + std::to_string(i) + ".cdns";
    uint64_t k = c.range(0, 11);
    if (k == 7 && !good_paths.empty()) {          // the same path twice
      size_t j = (size_t)c.range(0, good_paths.size() - 1);
      for (size_t q = 0; q < inputs.size(); q++) if (inputs[q].path == good_paths[j]) { in = inputs[q]; cb = contrib[q]; }
      cb.kind = "duplicate-path";
    } else if (k == 8) { write_file(in.path, ""); cb.kind = "empty"; }
    else if (k == 9) { in.path = cs.scratch + "/missing" + std::to_string(i); in.exists = false; cb.kind = "missing"; }
    else if (k == 10) { write_file(in.path, c.bytes(200)); cb.kind = "random-bytes"; }
    else {
      filegen::Opts fo;
      fo.max_records = 4 + cs.size / 4;
      fo.priv_choice = false;
      // block parameters: fresh, or those of an earlier input with exactly one member of one set changed
      // (near-duplicate sets across inputs: a merge must keep them apart)
      M::Preamble near;
      if (!earlier_pre.empty() && c.coin()) {
        near = earlier_pre[c.range(0, earlier_pre.size() - 1)];
        M::BlockP& b = near.bps[c.range(0, near.bps.size() - 1)];
        switch (c.range(0, 9)) {
          case 0: b.sp.hints.other ^= 1ull << c.range(0, 1); break;
          case 1: b.sp.hints.rr ^= 1ull << c.range(0, 1); break;
          case 2: b.sp.hints.qr ^= 1ull << c.range(0, 17); break;
          case 3: b.sp.hints.sig ^= 1ull << c.range(0, 16); break;
          case 4: b.sp.tps = b.sp.tps == 1000 ? 1000000 : 1000; break;
          case 5: b.sp.max_items = b.sp.max_items + 1; break;
          case 6: b.sp.opcodes.push_back(c.range(0, 255)); break;
          case 7: if (b.sp.flags.has) b.sp.flags.has = false; else b.sp.flags.set(1); break;
          case 8: if (b.has_cp) { b.has_cp = false; b.cp = M::CollP(); } else { b.has_cp = true; b.cp.snaplen.set(65535); } break;
          default: break;   // identical parameters in two inputs
        }
        fo.preset = &near;
        near_dup = true;
      }
      filegen::Result fr = filegen::make(c, cs.scratch, fo);
      earlier_pre.push_back(fr.pre);
      cref::Node root; std::string err;
      if (!cref::parse_all(fr.bytes, root, err)) { cs.st.cnt("blocked:generated_file_not_well_formed"); return; }
      // version: mostly the default so that inputs are compatible; sometimes different / private absent
      uint64_t vm = c.range(0, 7);
      M::i128 maj = 1, min = 0; bool has_priv = true; M::i128 priv = 1;
      if (vm == 5) maj = 2; else if (vm == 6) min = 1; else if (vm == 7) has_priv = false; else if (vm == 4) priv = 7;
      {
        cref::Node& pre = root.kids[1];
        std::vector<cref::Node> kv;
        for (size_t q = 0; q + 1 < pre.kids.size(); q += 2) {
          uint64_t key = pre.kids[q].arg;
          if (key == 2) continue;
          kv.push_back(pre.kids[q]);
          if (key == 0) kv.push_back(cref::mk_uint((uint64_t)maj)); else if (key == 1) kv.push_back(cref::mk_uint((uint64_t)min)); else kv.push_back(pre.kids[q + 1]);
          if (key == 1 && has_priv) { kv.push_back(cref::mk_uint(2)); kv.push_back(cref::mk_uint((uint64_t)priv)); }
        }
        pre.kids = kv; pre.arg = kv.size() / 2;
      }
      // occasionally a block without items (the exporter never writes one; a merge must not copy it)
      bool empty_block = c.range(0, 5) == 0;
      if (empty_block && !root.kids[2].kids.empty()) {
        cref::Node eb = cref::mk_map({cref::mk_uint(0), cref::mk_map({cref::mk_uint(0), cref::mk_arr({cref::mk_uint(0), cref::mk_uint(0)}), cref::mk_uint(1), cref::mk_uint(0)})});
        root.kids[2].kids.insert(root.kids[2].kids.begin() + c.range(0, root.kids[2].kids.size()), eb);
      }
      // block-parameters-index is optional with default 0: inputs from other writers may omit it
      if (c.range(0, 3) == 0 && cref::drop_default_bp_index(root, c)) indexless = true;
      // address events reported in more than one item of a block (counts differ): a merge must carry every item over
      if (c.range(0, 3) == 0 && cref::split_aec_items(root, c)) split_aec = true;
      std::string bytes;
      cref::put_head_min(bytes, cref::ARR, 3);
      cref::encode(root.kids[0], bytes); cref::encode(root.kids[1], bytes);
      bytes.push_back((char)0x9F);
      for (auto& b : root.kids[2].kids) cref::encode(b, bytes);
      bytes.push_back((char)0xFF);
      M::FileM fm; cdnsref::Report rep;
      if (!cdnsref::interpret(bytes, fm, rep) || !rep.ok()) { fprintf(stderr, "harness bug: generated input does not validate: %s\n", rep.first().c_str()); abort(); }
      size_t keep_blocks = fm.blocks.size();
      cb.kind = "valid";
      if (k == 6 && !fm.blocks.empty()) {   // becomes unreadable part-way: truncated at a random offset behind the header
        size_t cut;
        uint64_t cm = c.range(0, 2);
        if (cm == 0) cut = bytes.size() - 1;                                                    // only the closing break is missing
        else if (cm == 1) cut = fm.blocks[c.range(0, fm.blocks.size() - 1)].end;                // exactly between two blocks
        else cut = (size_t)c.range(fm.blocks[0].begin, bytes.size() - 1);
        bytes.resize(cut);
        keep_blocks = 0;
        for (auto& b : fm.blocks) if (b.end <= cut) keep_blocks++;
        cb.kind = "truncated@" + std::to_string(cut);
      }
      write_file(in.path, bytes);
      cb.readable = true; cb.major = fm.pre.major; cb.minor = fm.pre.minor; cb.priv = fm.pre.priv;
      for (size_t b = 0; b < keep_blocks; b++) {
        const M::BlockM& bm = fm.blocks[b];
        if (bm.qrs.size() + bm.aec_entries + bm.mms.size() == 0) continue;
        cb.blocks.emplace_back(M::dump_block(bm).substr(M::dump_block(bm).find(" stats=")), M::dump(fm.pre.bps[bm.bp_index]));
      }
      if (vm >= 4) cb.kind += vm == 7 ? "+no-private-version" : "+other-version";
      if (empty_block) cb.kind += "+empty-block";
      good_paths.push_back(in.path);
    }
    desc += " [" + cb.kind + (cb.readable ? " " + std::to_string(cb.blocks.size()) + "blk v" + M::i128s(cb.major) + "." + M::i128s(cb.minor) + "." + (cb.priv.has ? M::i128s(cb.priv.v) : "-") : "") + "]";
    inputs.push_back(in); contrib.push_back(cb);
  }
  cs.sample = "cdns-merge" + desc;
  if (cs.replay) printf("%s\n", cs.sample.c_str());
  // expectation
  int first = -1;
  for (size_t i = 0; i < contrib.size(); i++) if (contrib[i].readable) { first = (int)i; break; }
  std::vector<std::pair<std::string, std::string>> expect;
  unsigned contributing = 0, rejected = 0;
  std::set<std::string> distinct_sets;
  for (size_t i = 0; i < contrib.size(); i++) {
    auto& cb = contrib[i];
    if (!cb.readable) { rejected++; continue; }
    bool same = cb.major == contrib[first].major && cb.minor == contrib[first].minor && cb.priv.has == contrib[first].priv.has && (!cb.priv.has || cb.priv.v == contrib[first].priv.v);
    if (!same) { rejected++; continue; }
    contributing++;
    if (cb.kind.find("truncated") != std::string::npos) rejected++;
    for (auto& b : cb.blocks) { expect.push_back(b); distinct_sets.insert(b.second); }
  }
  std::string outp = cs.scratch + "/merged.cdns";
  ::unlink(outp.c_str());
  std::vector<std::string> args = {"-o", outp};
  for (auto& in : inputs) args.push_back(in.path);
  RunOut r = run_tool("cdns-merge", args, cs.scratch);
  if (r.timed_out) { cs.st.cnt("inconclusive:tool_timeout"); return; }
  check_normal_exit(r, "cdns-merge" + desc, "c18.merge");
  VF_CHECK(r.status == 0, "sig=c18.merge.exit_status cdns-merge exited with " << r.status << " :" << desc << " stderr: " << r.err.substr(0, 300));
  std::string merged;
  bool have = read_file(outp, merged);
  if (expect.empty()) {
    VF_CHECK(!have || merged.empty(), "sig=c18.merge.output_not_empty no input contributes a block but the output holds " << merged.size() << " bytes :" << desc);
  } else {
    VF_CHECK(have, "sig=c18.merge.no_output cdns-merge wrote no output file :" << desc << " stderr: " << r.err.substr(0, 300));
    M::FileM fm; cdnsref::Report rep;
    bool wf = cdnsref::interpret(merged, fm, rep);
    VF_CHECK(wf && rep.ok(), "sig=c18.merge.invalid_output merged file is not a valid C-DNS document: " << rep.first() << " :" << desc);
    std::vector<std::pair<std::string, std::string>> got;
    for (auto& bm : fm.blocks) got.emplace_back(M::dump_block(bm).substr(M::dump_block(bm).find(" stats=")), bm.bp_index < fm.pre.bps.size() ? M::dump(fm.pre.bps[bm.bp_index]) : "?");
    std::string problem;
    if (got.size() != expect.size()) problem = std::to_string(got.size()) + " blocks in the output, " + std::to_string(expect.size()) + " expected";
    else for (size_t i = 0; i < got.size(); i++) {
      if (got[i].first != expect[i].first) { problem = "block " + std::to_string(i) + " differs from its source block\n--- expected\n" + expect[i].first.substr(0, 1200) + "--- got\n" + got[i].first.substr(0, 1200); break; }
      if (got[i].second != expect[i].second) { problem = "block " + std::to_string(i) + " refers to different block parameters than in its source\n--- expected\n" + expect[i].second + "\n--- got\n" + got[i].second; break; }
    }
    VF_CHECK(problem.empty(), "sig=c18.merge.content " << problem << "\n inputs:" << desc);
    VF_CHECK(contrib[first].major == fm.pre.major && contrib[first].minor == fm.pre.minor && contrib[first].priv.has == fm.pre.priv.has && (!fm.pre.priv.has || fm.pre.priv.v == contrib[first].priv.v),
             "sig=c18.merge.version output version differs from the first readable input's :" << desc);
  }
  cs.nontrivial = (contributing >= 2 && distinct_sets.size() >= 2) || (contributing >= 1 && rejected >= 1);
  cs.st.cls("inputs:" + std::to_string(n));
  for (auto& cb : contrib) cs.st.cls("input_kind:" + cb.kind.substr(0, cb.kind.find('@')));
  if (expect.empty()) cs.st.cls("expected_empty_output");
  if (near_dup) cs.st.cls("near_duplicate_parameter_sets");
  if (indexless) cs.st.cls("block_without_parameters_index");
  if (split_aec) cs.st.cls("address_events_split_over_several_items");
  cs.st.cnt("blocks_compared", expect.size());
}

static std::vector<long long> numbers_of(const std::string& out, bool pretty) {
  std::vector<long long> v;
  std::istringstream is(out);
  std::string line;
  while (std::getline(is, line)) {
    if (line.empty()) continue;
    if (pretty) { if (line.compare(0, 6, "Block:") == 0) continue; size_t p = line.rfind(": "); if (p == std::string::npos) { v.push_back(-1); continue; } line = line.substr(p + 2); }
    char* end = nullptr;
    long long x = strtoll(line.c_str(), &end, 10);
    v.push_back(end && *end == 0 && !line.empty() ? x : -1);
  }
  return v;
}
static void c18_itemcount(Case& cs) {
  Chooser& c = cs.c;
  filegen::Opts fo;
  fo.max_records = 6 + cs.size;
  filegen::Result fr = filegen::make(c, cs.scratch, fo);
  if (c.range(0, 3) == 0) {   // address events reported in more than one item of a block (counts differ): every item counts
    cref::Node root; std::string perr;
    if (cref::parse_all(fr.bytes, root, perr) && cref::split_aec_items(root, c)) { fr.bytes = cref::encode(root); cs.st.cls("address_events_split_over_several_items"); }
  }
  M::FileM fm; cdnsref::Report rep;
  if (!cdnsref::interpret(fr.bytes, fm, rep) || !rep.ok()) { cs.st.cnt("blocked:generated_file_invalid"); return; }
  std::string path = cs.scratch + "/count.cdns";
  write_file(path, fr.bytes);
  int opt = (int)c.range(0, 3);
  bool perblock = opt & 1, pretty = opt & 2;
  std::vector<std::string> args;
  if (perblock) args.push_back("-b");
  if (pretty) args.push_back("-p");
  args.push_back(path);
  RunOut r = run_tool("cdns-itemcount", args, cs.scratch);
  if (r.timed_out) { cs.st.cnt("inconclusive:tool_timeout"); return; }
  std::string what = std::string("cdns-itemcount") + (perblock ? " -b" : "") + (pretty ? " -p" : "") + " on a file with " + std::to_string(fm.blocks.size()) + " blocks";
  cs.sample = what;
  check_normal_exit(r, what, "c18.itemcount");
  std::vector<long long> want;
  long long tq = 0, ta = 0, tm = 0;
  for (auto& b : fm.blocks) { tq += b.qrs.size(); ta += b.aec_entries; tm += b.mms.size(); if (perblock) { want.push_back(b.qrs.size()); want.push_back(b.aec_entries); want.push_back(b.mms.size()); } }
  if (!perblock) want = {tq, ta, tm};
  std::vector<long long> got = numbers_of(r.out, pretty);
  std::string ws, gs;
  for (auto x : want) ws += std::to_string(x) + " ";
  for (auto x : got) gs += std::to_string(x) + " ";
  VF_CHECK(got == want, "sig=c18.itemcount.numbers " << what << " printed [" << gs << "], the independent parse counts [" << ws << "]\nstdout:\n" << r.out.substr(0, 400));
  cs.nontrivial = fm.blocks.size() >= 2 || (ta > 0 && tm > 0);
  cs.st.cls(std::string("options:") + (perblock ? "-b" : "") + (pretty ? "-p" : "") + (opt == 0 ? "none" : ""));
}

// ---- C03, tool part: mutated inputs through every tool -------------------------------------------
static void c03_tools(Case& cs) {
  Chooser& c = cs.c;
  filegen::Opts fo;
  fo.max_records = 4 + cs.size / 4;
  int first_kind = -1;   // edits whose effect needs input beyond the first decoder window get their share of the large files
  if (c.range(0, 4) == 0) { fo.pad_to = (size_t)c.range(66000, 200000); cs.st.cls("seed_file_spans_several_decoder_windows"); if (c.coin()) first_kind = c.coin() ? 14 : 11; }
  filegen::Result fr = filegen::make(c, cs.scratch, fo);
  mut::Stats ms;
  std::string bad = mut::mutate_file(c, fr.bytes, cs.size, ms, first_kind);
  std::string path = cs.scratch + "/mut.cdns";
  write_file(path, bad);
  int tool = (int)c.range(0, 4);
  static const char* T[] = {"cdns-items", "cdns-blocks", "cdns-preamble", "cdns-itemcount", "cdns-merge"};
  std::vector<std::string> args;
  std::string outp = cs.scratch + "/mut.out";
  switch (tool) {
    case 0: { uint64_t o = c.range(0, 4); if (o == 1) args.push_back("-q"); else if (o == 2) args.push_back("-a"); else if (o == 3) args.push_back("-m"); else if (o == 4) { args.push_back("-n"); args.push_back(std::to_string(c.range(0, 3))); } break; }
    case 1: if (c.coin()) { args.push_back("-n"); args.push_back(std::to_string(c.range(0, 3))); } break;
    case 2: if (c.coin()) args.push_back("-b"); break;
    case 3: if (c.coin()) args.push_back("-b"); if (c.coin()) args.push_back("-p"); break;
    default: args.push_back("-o"); args.push_back(outp); if (c.coin()) { std::string good = cs.scratch + "/good.cdns"; write_file(good, fr.bytes); args.push_back(good); } break;
  }
  args.push_back(path);
  RunOut r = run_tool(T[tool], args, cs.scratch);
  std::string what = std::string(T[tool]) + " on a mutated file (" + ms.show() + ", " + std::to_string(bad.size()) + " B)";
  cs.sample = what;
  if (cs.replay) printf("%s\nstatus=%d signaled=%d\nstderr=%s\n", what.c_str(), r.status, r.signaled, r.err.substr(0, 2000).c_str());
  // a tool run on such an input takes milliseconds; 120 s without exit is not "time proportional to the input" (the driver confirms by three isolated replays)
  VF_CHECK(!r.timed_out, "sig=c03.tool." << T[tool] << ".no_termination " << what << " did not exit within 120 s");
  check_normal_exit(r, what, (std::string("c03.tool.") + T[tool]).c_str());
  cs.nontrivial = bad != fr.bytes;
  cs.st.cls(std::string("tool:") + T[tool]);
  ms.classify(cs.st);
  ::unlink(outp.c_str());
}

int main(int argc, char** argv) {
  Registry r;
  r.add("c18_merge", c18_merge);
  r.add("c18_itemcount", c18_itemcount);
  r.add("c03_tools", c03_tools);
  return harness_main(argc, argv, r);
}
