// libFuzzer target (C03): arbitrary bytes -> CdnsReader, accessors, renderers.
#include "consume.hpp"
extern "C" int LLVMFuzzerTestOneInput(const uint8_t* data, size_t size) {
  std::string bytes(reinterpret_cast<const char*>(data), size);
  consume::Result r = consume::reader(bytes);
  if (r.non_std) __builtin_trap();
  consume::Result l = consume::reuse_block_object(bytes);   // lower-level API: one block object for all blocks, drained after a failed read
  if (l.non_std) __builtin_trap();
  return 0;
}
