// mt harness (C20): independent exporter / reader / block instances used from concurrent threads.
// Built with ThreadSanitizer.  Workloads are generated in the main thread (rapidcheck is not thread safe),
// executed once sequentially (reference results) and then concurrently from T threads started on a barrier;
// oracle = no ThreadSanitizer report and results identical to the sequential run.
#include <fcntl.h>
#include <sys/stat.h>
#include <atomic>
#include <sstream>
#include <thread>

#include "cdns.h"

#include "cbor_ref.hpp"
#include "decomp.hpp"
#include "filegen.hpp"
#include "gen.hpp"
#include "harness.hpp"
#include "lib_adapter.hpp"
#include "mutate.hpp"

using namespace vf;
namespace M = model;
static const char* EXT[] = {"", ".gz", ".xz"};

enum WKind { W_EXPORT, W_READ, W_BLOCK, W_TS, W_N };
static const char* WN[W_N] = {"export", "read+render", "blocks", "timestamps"};

struct ExpOp { int kind; CDNS::GenericQueryResponse qr; CDNS::GenericAddressEventCount aec; CDNS::GenericMalformedMessage mm; boost::optional<CDNS::BlockStatistics> st; bool exp = false; };
struct Workload {
  int kind = 0;
  // export
  M::Preamble pre; int comp = 0; int okind = 0; std::vector<ExpOp> ops; std::string long_names;
  // read
  std::string file, variant;
  // blocks
  std::vector<std::string> ips, names;
  // timestamps
  uint64_t tps = 1000, s0 = 0; unsigned n = 0;
};

static std::atomic<int> g_active[W_N];
static std::atomic<int> g_max_overlap[W_N];
struct ActiveGuard {
  int k;
  explicit ActiveGuard(int kind) : k(kind) { int now = ++g_active[k]; int m = g_max_overlap[k].load(); while (now > m && !g_max_overlap[k].compare_exchange_weak(m, now)) {} }
  ~ActiveGuard() { --g_active[k]; }
};

static std::string run_export(const Workload& w, const std::string& dir) {
  CDNS::FilePreamble fp = adapt::lib_preamble(w.pre);
  std::vector<std::string> outs;
  unsigned n = 0;
  // long_names: outputs of all threads live in one directory and their names (250 characters) agree in the first 247
  auto next = [&](std::string& base) { base = w.long_names.empty() ? dir + "/e" + std::to_string(n++) : w.long_names + std::to_string(n++ % 10); outs.push_back(w.okind == 0 ? base + EXT[w.comp] : base); };
  auto ofd = [&](const std::string& p) { return ::open(p.c_str(), O_WRONLY | O_CREAT | O_TRUNC, 0644); };
  {
    std::string base; next(base);
    std::unique_ptr<CDNS::CdnsExporter> ex;
    if (w.okind == 0) ex.reset(new CDNS::CdnsExporter(fp, base, (CDNS::CborOutputCompression)w.comp));
    else ex.reset(new CDNS::CdnsExporter(fp, ofd(base), (CDNS::CborOutputCompression)w.comp));
    bool abandoned = false;
    for (auto& o : w.ops) {
      if (abandoned) break;
      switch (o.kind) {
        case 0: ex->buffer_qr(o.qr, o.st); break;
        case 1: ex->buffer_aec(o.aec, o.st); break;
        case 2: ex->buffer_mm(o.mm, o.st); break;
        case 3: ex->write_block(); break;
        case 4: { std::string b; next(b); if (w.okind == 0) ex->rotate_output(b, o.exp); else ex->rotate_output(ofd(b), o.exp); break; }
        default: {
          // a rotation that the library must refuse (destination cannot be opened), caught by the application, followed by a good one
          try { if (w.okind == 0) ex->rotate_output(std::string("/nonexistent-vf-directory/x"), false); else ex->rotate_output((int)-1, false); outs.push_back("!no-exception"); }
          catch (const CDNS::CborOutputException&) {}
          if (o.exp) {
            // the application gives up on this exporter: it is destroyed a little later, while other threads go on opening outputs
            abandoned = true;
            for (int y = 0; y < 50; y++) std::this_thread::yield();
          } else {
            try { std::string b; next(b); if (w.okind == 0) ex->rotate_output(b, false); else ex->rotate_output(ofd(b), false); } catch (const std::exception&) { outs.push_back("!second-rotation-threw"); }
          }
          break;
        }
      }
    }
    if (!abandoned) ex->write_block();
  }
  std::string res;
  for (auto& p : outs) { if (!p.empty() && p[0] == '!') { res += p + ";"; continue; } std::string b; read_file(p, b); res += std::to_string(b.size()) + ":" + std::to_string(fnv1a(b.data(), b.size())) + ";"; ::unlink(p.c_str()); }
  return res;
}
static std::string run_read(const Workload& w) {
  std::istringstream is(w.file);
  std::string out;
  CDNS::CdnsReader rd(is);
  out += rd.m_file_preamble.string();
  for (;;) {
    bool eof = false;
    CDNS::CdnsBlockRead b = rd.read_block(eof);
    if (eof) break;
    out += b.string();
    bool end = false;
    for (;;) { auto q = b.read_generic_qr(end); if (end) break; out += q.string(); }
    for (;;) { auto a = b.read_generic_aec(end); if (end) break; out += a.string(); }
    for (;;) { auto m = b.read_generic_mm(end); if (end) break; out += m.string(); }
  }
  return std::to_string(out.size()) + ":" + std::to_string(fnv1a(out.data(), out.size()));
}
static std::string run_blocks(const Workload& w) {
  CDNS::BlockParameters bp;
  CDNS::CdnsBlock a(bp, 0);
  std::string out;
  for (size_t i = 0; i < w.ips.size(); i++) {
    out += std::to_string(a.add_ip_address(w.ips[i])) + ",";
    out += std::to_string(a.add_name_rdata(w.names[i % w.names.size()])) + ",";
    CDNS::ClassType ct; ct.type = (uint16_t)(i % 5); ct.class_ = 1;
    out += std::to_string(a.add_classtype(ct)) + ",";
    CDNS::MalformedMessageData md; md.mm_payload = w.names[i % w.names.size()];
    out += std::to_string(a.add_malformed_message_data(md)) + ";";
    if (i % 4 == 3) { CDNS::CdnsBlock c(a); out += std::to_string(c.add_ip_address(w.ips[i / 2])) + "|"; a = c; }
  }
  out += a.string();
  return out;
}
static std::string run_ts(const Workload& w) {
  std::string out;
  CDNS::Timestamp t(w.s0, 0);
  for (unsigned i = 0; i < w.n; i++) {
    CDNS::Timestamp u(w.s0 + i % 7, (i * 37) % w.tps);
    int64_t off = u.get_time_offset(t, w.tps);
    CDNS::Timestamp v = t;
    v.add_time_offset(off, w.tps);
    out += std::to_string(off) + "/" + std::to_string(v.m_secs) + "." + std::to_string(v.m_ticks) + (u < t ? "<" : ">=") + ";";
  }
  out += t.string();
  return out;
}
static std::string run_workload(const Workload& w, const std::string& dir) {
  ActiveGuard g(w.kind);
  try {
    switch (w.kind) {
      case W_EXPORT: return run_export(w, dir);
      case W_READ: return run_read(w);
      case W_BLOCK: return run_blocks(w);
      default: return run_ts(w);
    }
  } catch (const std::exception& e) { return std::string("EXCEPTION ") + e.what(); }
}

static Workload gen_workload(Chooser& c, const std::string& scratch, unsigned size) {
  Workload w;
  w.kind = (int)c.range(0, 5); if (w.kind >= W_N) w.kind = w.kind == 4 ? W_EXPORT : W_READ;   // export and read are the heavy hitters
  gen::Pools pools = gen::make_pools(c);
  gen::TimeCtx tc = gen::gen_timectx(c);
  gen::RecOpts ro; ro.pres = (unsigned)c.pick<int>({4, 7});
  switch (w.kind) {
    case W_EXPORT: {
      gen::BpOpts bo; bo.max_items = {1, 3, 10, 10000};
      w.pre.bps.push_back(gen::gen_bp(c, bo));
      w.comp = (int)c.range(0, 2); w.okind = (int)c.range(0, 1);
      unsigned n = (unsigned)c.range(3, 6 + size);
      uint64_t tps = (uint64_t)w.pre.bps[0].sp.tps;
      for (unsigned i = 0; i < n; i++) {
        ExpOp o; o.kind = (int)c.range(0, 8); if (o.kind > 5) o.kind = 0;
        if (c.coin()) o.st = adapt::lib_stats(gen::gen_stats(c, true));
        if (o.kind == 0) o.qr = adapt::generic_qr(gen::gen_qr(c, pools, tc, tps, ro));
        else if (o.kind == 1) o.aec = adapt::generic_aec(gen::gen_aec(c, pools));
        else if (o.kind == 2) o.mm = adapt::generic_mm(gen::gen_mm(c, pools, tc, tps, ro));
        else if (o.kind == 4 || o.kind == 5) o.exp = c.coin();
        w.ops.push_back(o);
      }
      break;
    }
    case W_READ: {
      filegen::Opts fo; fo.max_records = 6 + size; w.file = filegen::make(c, scratch, fo).bytes;
      // inputs as other C-DNS writers produce them (re-encoded, with unknown members, which makes the reader skip items), cut short or
      // damaged: a reader that fails must not leave anything behind that the next reader on the same thread could see
      uint64_t v = c.range(0, 5);
      if (v >= 2) {
        cref::Node root; std::string err;
        if (cref::parse_all(w.file, root, err)) {
          cref::RwOpts ro; ro.p_num = 1; ro.p_den = 4; ro.insert_unknown = true; ro.unknown_depth = 3;
          cref::RwStats rs; std::string rew;
          cref::encode_rw(root, rew, c, ro, rs, [](const cref::Node&) { return true; });
          w.file = rew; w.variant = "foreign";
        }
        if (v == 4 && w.file.size() > 2) { w.file.resize((size_t)c.range(1, w.file.size() - 1)); w.variant += "+truncated"; }
        if (v == 5) { mut::Stats ms; w.file = mut::mutate_file(c, w.file, size, ms); w.variant += "+damaged"; }
      } else if (v == 1 && w.file.size() > 2) { w.file.resize((size_t)c.range(1, w.file.size() - 1)); w.variant = "truncated"; }
      break;
    }
    case W_BLOCK: { unsigned n = (unsigned)c.range(4, 10 + size); for (unsigned i = 0; i < n; i++) { w.ips.push_back(gen::gen_ip(c, pools)); w.names.push_back(gen::gen_name(c, pools, 60)); } break; }
    default: w.tps = c.pick<uint64_t>({1, 1000, 1000000, 1000000000}); w.s0 = c.range(0, 1ull << 32); w.n = (unsigned)c.range(10, 200); break;
  }
  return w;
}

static void c20_threads(Case& cs) {
  Chooser& c = cs.c;
  unsigned T = (unsigned)c.pick<int>({2, 3, 4, 8, 16, 5, 12});
  bool same_kind = c.range(0, 2) == 0;     // all threads inside the same workload class at once
  std::vector<std::vector<Workload>> plan(T);
  int forced = (int)c.range(0, 1);         // export or read+render
  unsigned per = (unsigned)c.range(1, 4);
  for (unsigned t = 0; t < T; t++)
    for (unsigned i = 0; i < per; i++) {
      Workload w = gen_workload(c, cs.scratch, cs.size);
      if (same_kind && w.kind != forced) { w = gen_workload(c, cs.scratch, cs.size); if (w.kind != forced && forced == W_READ) { filegen::Opts fo; w = Workload(); w.kind = W_READ; w.file = filegen::make(c, cs.scratch, fo).bytes; } }
      plan[t].push_back(w);
    }
  // one case in six: the named outputs of all export workloads share one directory and differ only behind their 247th character
  if (c.range(0, 5) == 0) {
    std::string shared = cs.scratch + "/shared";
    ::mkdir(shared.c_str(), 0755);
    unsigned id = 0;
    for (auto& tw : plan) for (auto& w : tw) if (w.kind == W_EXPORT && id < 100) { w.long_names = shared + "/" + std::string(247, 'L') + (char)('a' + id / 10) + (char)('0' + id % 10); id++; }
    cs.st.cls("long_output_names_sharing_247_characters");
  }
  // sequential reference: every workload alone, in a thread of its own (nothing it leaves behind - not even in thread-local
  // storage - can reach another workload)
  std::vector<std::vector<std::string>> ref(T), par(T);
  for (unsigned t = 0; t < T; t++) {
    std::string d = cs.scratch + "/seq" + std::to_string(t);
    ::mkdir(d.c_str(), 0755);
    for (auto& w : plan[t]) { std::string r; std::thread one([&] { r = run_workload(w, d); }); one.join(); ref[t].push_back(r); }
  }
  for (int k = 0; k < W_N; k++) { g_active[k] = 0; g_max_overlap[k] = 0; }
  // concurrent run
  std::atomic<unsigned> ready{0};
  std::atomic<bool> go{false};
  std::vector<std::thread> th;
  for (unsigned t = 0; t < T; t++) {
    std::string d = cs.scratch + "/par" + std::to_string(t);
    ::mkdir(d.c_str(), 0755);
    par[t].resize(plan[t].size());
    th.emplace_back([&, t, d] {
      ready++;
      while (!go.load()) std::this_thread::yield();
      for (size_t i = 0; i < plan[t].size(); i++) { par[t][i] = run_workload(plan[t][i], d); if (i % 2) std::this_thread::yield(); }
    });
  }
  while (ready.load() < T) std::this_thread::yield();
  go = true;
  for (auto& x : th) x.join();
  std::string desc = std::to_string(T) + " threads x " + std::to_string(per) + " workloads:";
  for (unsigned t = 0; t < T && t < 6; t++) { desc += " ["; for (auto& w : plan[t]) desc += std::string(WN[w.kind]) + (w.kind == W_EXPORT ? std::string(EXT[w.comp]) + (w.okind ? "/fd" : "/name") : w.kind == W_READ && !w.variant.empty() ? "(" + w.variant + ")" : "") + " "; desc += "]"; }
  cs.sample = desc;
  if (cs.replay) printf("%s\n", desc.c_str());
  for (unsigned t = 0; t < T; t++)
    for (size_t i = 0; i < plan[t].size(); i++)
      VF_CHECK(ref[t][i] == par[t][i], "sig=c20.result_differs." << WN[plan[t][i].kind] << " thread " << t << " workload " << i << " (" << WN[plan[t][i].kind] << ") produced a different result when run concurrently: sequential '" << ref[t][i].substr(0, 120) << "' concurrent '" << par[t][i].substr(0, 120) << "' : " << desc);
  int best = 0;
  for (int k = 0; k < W_N; k++) { int m = g_max_overlap[k].load(); if (m >= 2) cs.st.cls(std::string("overlap>=2:") + WN[k]); if (m > best) best = m; }
  cs.st.cls("threads:" + std::to_string(T));
  for (unsigned t = 0; t < T; t++) { bool failed_before = false; for (size_t i = 0; i < plan[t].size(); i++) { if (plan[t][i].kind != W_READ) continue; if (failed_before && plan[t][i].variant.find("foreign") == 0) cs.st.cls("reader_of_foreign_file_after_failed_reader_on_same_thread"); if (ref[t][i].compare(0, 9, "EXCEPTION") == 0) failed_before = true; } }
  cs.st.cls("max_overlap:" + std::to_string(best));
  cs.nontrivial = best >= 2;
}

int main(int argc, char** argv) {
  Registry r;
  r.add("c20_threads", c20_threads);
  return harness_main(argc, argv, r);
}
