// writers harness (C14): compression is transparent.  A generated plan of write(chunk) / rotate_output
// calls runs on the gzip or xz writer and on the plain writer; every output of the compressed writer,
// decompressed by an independent strict single-stream decoder, must equal the plain writer's output.
#include <fcntl.h>
#include <sys/stat.h>

#include "writer.h"

#include "decomp.hpp"
#include "harness.hpp"

using namespace vf;
using namespace CDNS;

static const char* EXT[] = {"", ".gz", ".xz"};

struct Chunk { size_t size; int cls; uint64_t seed; };
struct Step { bool rotate; Chunk ch; bool bad_first = false; bool same = false; };   // same: the rotation names the output that is already open (named outputs: the finished file is replaced by the new one)   // bad_first: the rotation is first attempted onto a destination that cannot be opened

static void fill(std::string& out, const Chunk& c) {
  size_t base = out.size();
  out.resize(base + c.size);
  char* p = &out[base];
  uint64_t x = c.seed * 0x9E3779B97F4A7C15ull + 1;
  switch (c.cls) {
    case 0: memset(p, 0, c.size); break;                                                  // zeros
    case 1: { static const char T[] = "C-DNS query response example.org. IN AAAA 2001:db8::1 "; for (size_t i = 0; i < c.size; i++) p[i] = T[(i + c.seed) % (sizeof(T) - 1)]; break; }
    case 2: for (size_t i = 0; i < c.size; i++) { x ^= x << 13; x ^= x >> 7; x ^= x << 17; p[i] = (char)(x >> 24); } break;   // incompressible
    default:                                                                              // mixed: runs of random and constant data
      for (size_t i = 0; i < c.size; i++) { if ((i & 0xFFF) == 0) { x ^= x << 13; x ^= x >> 7; x ^= x << 17; } p[i] = ((x >> 3) & 1) ? (char)(x >> ((i & 7) * 8)) : (char)(x = x * 6364136223846793005ull + 1442695040888963407ull, x >> 56); }
      break;
  }
}

struct Target {
  bool named; std::string dir; unsigned n = 0; int comp;
  std::vector<std::string> finals;   // path under which each output must be found
  std::string last_base;
  // every third name carries the text of a compression suffix in its middle (".gz." / ".xz."): the suffix is appended all the same
  std::string next_name(bool same = false) { std::string b = same && !last_base.empty() ? last_base : dir + "/w" + std::to_string(comp) + "_" + std::to_string(n) + (n % 3 == 1 ? (n % 2 ? ".gz.d" : ".xz.0001") : ""); if (!(same && !last_base.empty())) n++; last_base = b; finals.push_back(named ? b + EXT[comp] : b); return b; }
  int open_fd(const std::string& p) { int fd = ::open(p.c_str(), O_WRONLY | O_CREAT | O_TRUNC, 0644); if (fd < 0) { perror("open"); abort(); } return fd; }
};

static std::unique_ptr<BaseCborOutputWriter> make_writer(Target& t) {
  std::string b = t.next_name();
  if (t.named) {
    if (t.comp == 0) return std::unique_ptr<BaseCborOutputWriter>(new CborOutputWriter(b));
    if (t.comp == 1) return std::unique_ptr<BaseCborOutputWriter>(new GzipCborOutputWriter(b));
    return std::unique_ptr<BaseCborOutputWriter>(new XzCborOutputWriter(b));
  }
  int fd = t.open_fd(b);
  if (t.comp == 0) return std::unique_ptr<BaseCborOutputWriter>(new CborOutputWriter(fd));
  if (t.comp == 1) return std::unique_ptr<BaseCborOutputWriter>(new GzipCborOutputWriter(fd));
  return std::unique_ptr<BaseCborOutputWriter>(new XzCborOutputWriter(fd));
}
static void rotate(BaseCborOutputWriter& w, Target& t, bool same = false) {
  std::string b = t.next_name(same && t.named);
  if (t.named) w.rotate_output(boost::any(b)); else w.rotate_output(boost::any(t.open_fd(b)));
}
// rotation onto a destination that cannot be opened: must be refused with a CborOutputException (documented @throw)
static bool rotate_bad(BaseCborOutputWriter& w, Target& t) {
  try {
    if (t.named) w.rotate_output(boost::any(std::string("/nonexistent-vf-directory/out"))); else w.rotate_output(boost::any((int)1000123));
  } catch (const CborOutputException&) { return true; }
  return false;
}

static void run_plan(Case& cs, const std::vector<Step>& plan, int comp, bool named, const std::string& desc) {
  // expected content per output = concatenation of the chunks written to it
  std::vector<std::string> expect(1);
  Target tc{named, cs.scratch, 0, comp, {}}, tp{named, cs.scratch, 0, 0, {}};
  {
    auto wc = make_writer(tc);
    auto wp = make_writer(tp);
    std::string buf;
    for (auto& s : plan) {
      if (s.rotate) {
        if (s.bad_first) {
          bool rc_ = rotate_bad(*wc, tc), rp_ = rotate_bad(*wp, tp);
          VF_CHECK(rc_ == rp_, "sig=c14.bad_destination rotation onto a destination that cannot be opened: compressed writer " << (rc_ ? "threw CborOutputException" : "did not throw") << ", plain writer " << (rp_ ? "threw" : "did not throw") << " : " << desc);
        }
        rotate(*wc, tc, s.same); rotate(*wp, tp, s.same); expect.emplace_back(); continue;
      }
      buf.clear();
      fill(buf, s.ch);
      wc->write(buf.data(), buf.size());
      wp->write(buf.data(), buf.size());
      expect.back() += buf;
    }
  }  // destruction closes the last output
  for (size_t i = 0; i < expect.size(); i++) {
    // an output whose name was used again by a later rotation has been replaced by that later output
    bool superseded = false;
    for (size_t j = i + 1; j < expect.size(); j++) if (tc.finals[j] == tc.finals[i]) superseded = true;
    if (superseded) { cs.st.cnt("outputs_replaced_by_a_rotation_onto_the_open_name"); continue; }
    std::string rawc, rawp, plain, err;
    std::string where = "output #" + std::to_string(i) + " of " + std::to_string(expect.size()) + " (" + tc.finals[i] + ")";
    bool okc = read_file(tc.finals[i], rawc), okp = read_file(tp.finals[i], rawp);
    VF_CHECK(okp && rawp == expect[i], "sig=c14.plain_writer plain writer output differs from the bytes written (" << rawp.size() << " vs " << expect[i].size() << " B) " << where << " : " << desc);
    VF_CHECK(okc, "sig=c14.missing_output compressed output not found under its expected name (suffix " << EXT[comp] << ") " << where << " : " << desc);
    if (named) { struct stat sb; VF_CHECK(::stat((tc.finals[i] + ".part").c_str(), &sb) != 0, "sig=c14.part_left .part file left behind " << where << " : " << desc); }
    bool dec = decompress(comp, rawc, plain, err);
    VF_CHECK(dec, "sig=c14.bad_stream " << (comp == 1 ? "gzip" : "xz") << " output is not one complete stream: " << err << " (" << rawc.size() << " compressed bytes for " << expect[i].size() << " written) " << where << " : " << desc);
    if (plain != rawp) {
      size_t k = 0; while (k < plain.size() && k < rawp.size() && plain[k] == rawp[k]) k++;
      VF_CHECK(false, "sig=c14.content_differs decompressed output differs from the plain writer's output at offset " << k << " (" << plain.size() << " vs " << rawp.size() << " B) " << where << " : " << desc);
    }
    ::unlink(tc.finals[i].c_str()); ::unlink(tp.finals[i].c_str());
    cs.st.cnt("outputs_compared");
    cs.st.cnt("bytes_compared", expect[i].size());
  }
}

static void c14_plan(Case& cs) {
  Chooser& c = cs.c;
  int comp = 1 + (int)c.range(0, 1);
  bool named = c.coin();
  unsigned n = (unsigned)c.range(1, 3 + cs.size / 3);
  std::vector<Step> plan;
  size_t total = 0, maxchunk = 0; unsigned rots = 0, writes = 0;
  std::string desc = std::string(comp == 1 ? "gzip" : "xz") + (named ? " name" : " fd") + ":";
  for (unsigned i = 0; i < n; i++) {
    Step s; s.rotate = c.range(0, 5) == 0;
    if (s.rotate) { s.bad_first = c.range(0, 3) == 0; s.same = named && !s.bad_first && c.range(0, 3) == 0; rots++; desc += s.bad_first ? " R(bad,then good)" : s.same ? " R(onto the open name)" : " R"; if (s.bad_first) cs.st.cls("rotation_onto_unopenable_destination_first"); plan.push_back(s); continue; }
    uint64_t m = c.range(0, 7);
    size_t sz;
    if (m == 0) sz = 0; else if (m == 1) sz = 1; else if (m == 2) sz = c.pick<size_t>({2047, 2048, 2049, 4096, 65535, 65536});
    else if (m <= 5) sz = c.range(0, 5000); else if (m == 6) sz = c.range(0, 256 * 1024); else sz = c.range(0, cs.size >= 60 ? 3 * 1024 * 1024 : 700 * 1024);
    s.ch = Chunk{sz, (int)c.range(0, 3), c.range(0, 1000)};
    total += sz; if (sz > maxchunk) maxchunk = sz; writes++;
    desc += " w" + std::to_string(sz) + "/" + "ztrm"[s.ch.cls];
    plan.push_back(s);
  }
  cs.sample = desc.substr(0, 400);
  if (cs.replay) printf("%s\n", desc.c_str());
  run_plan(cs, plan, comp, named, desc.substr(0, 300));
  cs.nontrivial = total > 0 && (writes >= 2 || rots >= 1 || maxchunk >= 65536);
  cs.st.cls(std::string(comp == 1 ? "gzip" : "xz") + (named ? ":name" : ":fd"));
  if (rots) cs.st.cls("with_rotation"); if (maxchunk >= 65536) cs.st.cls("chunk>=64KiB"); if (maxchunk >= (1 << 20)) cs.st.cls("chunk>=1MiB");
}

// large chunk classes: comp x target x size class x data class (enumerated)
static void c14_large(Case& cs) {
  Chooser& c = cs.c;
  static const double MIB[] = {1, 4, 6.5, 9, 17, 33, 48};
  unsigned nsz = cs.size >= 60 ? 7 : 4;
  uint64_t cell = c.range(0, nsz * 4 - 1);       // first choice = sharding dimension
  unsigned szi = (unsigned)(cell / 4);
  int comp = 1 + (int)((cell >> 1) & 1);
  bool named = cell & 1;
  int cls = (int)c.range(2, 3);                   // incompressible and mixed: the data that expands
  size_t sz = (size_t)(MIB[szi] * 1024 * 1024);
  std::vector<Step> plan;
  Step pre; pre.rotate = false; pre.ch = Chunk{100, 1, 1}; plan.push_back(pre);
  Step big; big.rotate = false; big.ch = Chunk{sz, cls, cell + 7}; plan.push_back(big);
  Step rot; rot.rotate = true; plan.push_back(rot);
  Step post; post.rotate = false; post.ch = Chunk{2049, 0, 3}; plan.push_back(post);
  std::string desc = std::string(comp == 1 ? "gzip" : "xz") + (named ? " name" : " fd") + ": one chunk of " + std::to_string(sz) + " bytes (" + (cls == 2 ? "incompressible" : "mixed") + "), rotation, small chunk";
  cs.sample = desc;
  if (cs.replay) printf("%s\n", desc.c_str());
  run_plan(cs, plan, comp, named, desc);
  cs.nontrivial = true;
  cs.st.cls("large_chunk_MiB:" + std::to_string((int)MIB[szi]));
}

// volume in small chunks, as the exporter writes (2048-byte pieces): 9..20 MiB into one output, then a rotation and a little more
// comp x target x chunk size (enumerated)
static void c14_volume(Case& cs) {
  Chooser& c = cs.c;
  uint64_t cell = c.range(0, 7);                   // first choice = sharding dimension
  int comp = 1 + (int)(cell & 1);
  bool named = (cell >> 1) & 1;
  size_t chunk = (cell >> 2) ? 16384 : 2048;
  size_t total = (size_t)((cs.size >= 60 ? 20 : 9) * 1024 * 1024 + 12345);
  std::vector<Step> plan;
  uint64_t seed = cell * 7 + 1;
  for (size_t done = 0; done < total; done += chunk) { Step s; s.rotate = false; s.ch = Chunk{chunk, 3, seed++}; plan.push_back(s); }
  Step rot; rot.rotate = true; plan.push_back(rot);
  Step post; post.rotate = false; post.ch = Chunk{2049, 1, 3}; plan.push_back(post);
  std::string desc = std::string(comp == 1 ? "gzip" : "xz") + (named ? " name" : " fd") + ": " + std::to_string(total >> 20) + " MiB of mixed data in chunks of " + std::to_string(chunk) + " bytes, rotation, small chunk";
  cs.sample = desc;
  if (cs.replay) printf("%s\n", desc.c_str());
  run_plan(cs, plan, comp, named, desc);
  cs.nontrivial = true;
  cs.st.cls("volume_in_chunks_of:" + std::to_string(chunk));
}

int main(int argc, char** argv) {
  Registry r;
  r.add("c14_volume", c14_volume);
  r.add("c14_plan", c14_plan);
  r.add("c14_large", c14_large);
  return harness_main(argc, argv, r);
}
