// tstamp harness (C17): Timestamp offset arithmetic against a 128-bit reference.
#include "timestamp.h"

#include "gen.hpp"
#include "harness.hpp"

using namespace vf;
using CDNS::Timestamp;
typedef __int128 i128;

static std::string s128(i128 v) { return model::i128s(v); }
static const i128 LIM = ((i128)1) << 63;

static i128 inst(uint64_t s, uint64_t t, uint64_t tps) { return (i128)s * tps + t; }

struct Counters { uint64_t pairs = 0, borrows = 0, carries = 0, refused = 0; };

// all oracles for one (t, ref, tps) with both instants below 2^63 and ticks < tps
static void check_pair(uint64_t s, uint64_t tk, uint64_t rs, uint64_t rt, uint64_t tps, Counters& k) {
  Timestamp t(s, tk), ref(rs, rt);
  i128 it = inst(s, tk, tps), ir = inst(rs, rt, tps);
  int64_t off = t.get_time_offset(ref, tps);
  VF_CHECK((i128)off == it - ir, "sig=c17.get_offset get_time_offset(" << s << "s+" << tk << " from " << rs << "s+" << rt << ", tps=" << tps << ") = " << off << ", exact difference is " << s128(it - ir));
  Timestamp x = ref;
  x.add_time_offset(off, tps);
  VF_CHECK(x.m_secs == s && x.m_ticks == tk, "sig=c17.add_inverse (" << rs << "s+" << rt << ").add_time_offset(" << off << ", tps=" << tps << ") = " << x.m_secs << "s+" << x.m_ticks << ", expected " << s << "s+" << tk);
  bool lt = t < ref, le = t <= ref;
  VF_CHECK(lt == (it < ir), "sig=c17.less operator< on " << s << "s+" << tk << " vs " << rs << "s+" << rt << " gives " << lt);
  VF_CHECK(le == (it <= ir), "sig=c17.less_equal operator<= on " << s << "s+" << tk << " vs " << rs << "s+" << rt << " gives " << le);
  k.pairs++;
  if (tk < rt && s > rs) k.borrows++;
  if ((i128)rt + (it - ir) >= (i128)tps) k.carries++;
}
// add with an arbitrary offset: result per reference, or refusal leaving the value unchanged
static void check_add(uint64_t s, uint64_t tk, int64_t off, uint64_t tps, Counters& k) {
  Timestamp x(s, tk);
  i128 total = inst(s, tk, tps) + off;
  bool threw = false;
  std::string what;
  try { x.add_time_offset(off, tps); } catch (const std::runtime_error& e) { threw = true; what = e.what(); }
  if (tps == 0 || total < 0) {
    VF_CHECK(threw, "sig=c17.not_refused (" << s << "s+" << tk << ").add_time_offset(" << off << ", tps=" << tps << ") must be refused (result " << (tps ? s128(total) : std::string("undefined")) << ") but gave " << x.m_secs << "s+" << x.m_ticks);
    VF_CHECK(x.m_secs == s && x.m_ticks == tk, "sig=c17.changed_on_refusal refused add_time_offset changed the timestamp to " << x.m_secs << "s+" << x.m_ticks);
    k.refused++;
  } else {
    VF_CHECK(!threw, "sig=c17.wrongly_refused (" << s << "s+" << tk << ").add_time_offset(" << off << ", tps=" << tps << ") refused (" << what << ") although the result " << s128(total) << " is representable");
    VF_CHECK((i128)x.m_secs == total / tps && (i128)x.m_ticks == total % tps, "sig=c17.add_result (" << s << "s+" << tk << ").add_time_offset(" << off << ", tps=" << tps << ") = " << x.m_secs << "s+" << x.m_ticks << ", expected " << s128(total / tps) << "s+" << s128(total % tps));
  }
}

// (a) exhaustive grid
static void c17_grid(Case& cs) {
  static const uint64_t TPS[] = {1, 2, 3, 7, 10, 1000};
  uint64_t tps = TPS[cs.c.range(0, 5)];
  Counters k;
  for (uint64_t s = 0; s <= 6; s++) for (uint64_t rs = 0; rs <= 6; rs++)
    for (uint64_t tk = 0; tk < tps; tk++) for (uint64_t rt = 0; rt < tps; rt++) check_pair(s, tk, rs, rt, tps, k);
  // refusals / additions over the small grid with every offset that lands within [-3, +3] seconds of the epoch
  for (uint64_t s = 0; s <= 3; s++) for (uint64_t tk = 0; tk < tps; tk += (tps > 10 ? 37 : 1)) {
    i128 it = inst(s, tk, tps);
    for (i128 target = -3 * (i128)tps; target <= 3 * (i128)tps; target += (tps > 10 ? 41 : 1)) check_add(s, tk, (int64_t)(target - it), tps, k);
    check_add(s, tk, INT64_MIN, tps, k);
    check_add(s, tk, INT64_MIN + 1, tps, k);
    check_add(s, tk, 0, 0, k);
    check_add(s, tk, -1, 0, k);
  }
  cs.st.cnt("grid_pairs", k.pairs); cs.st.cnt("grid_borrows", k.borrows); cs.st.cnt("grid_carries", k.carries); cs.st.cnt("grid_refusals", k.refused);
  cs.nontrivial = true;
  cs.sample = "grid tps=" + std::to_string(tps) + ": " + std::to_string(k.pairs) + " pairs, " + std::to_string(k.refused) + " refusals";
}

// (b)+(c) boundary x boundary and random
static uint64_t pick_tps(Chooser& c) {
  uint64_t m = c.range(0, 8);
  static const uint64_t T[] = {1000000, 1, 1000, 1000000000, 2, 3, 10, 999999999};
  if (m < 8) return T[m];
  return c.range(1, 1000000000);
}
static void pick_ts(Chooser& c, uint64_t tps, uint64_t& s, uint64_t& t) {
  uint64_t ms = gen::max_secs(tps);
  uint64_t m = c.range(0, 9);
  switch (m) {
    case 0: s = c.range(0, 3); break;
    case 1: s = 0x7FFFFFFFull - c.range(0, 1); break;
    case 2: s = 0x80000000ull + c.range(0, 1); break;
    case 3: s = 0xFFFFFFFFull - c.range(0, 1); break;
    case 4: s = 0x100000000ull + c.range(0, 1); break;
    case 5: s = ms - c.range(0, 2); break;
    case 6: s = 9223372036ull + c.range(0, 1); break;    // 2262 limit of a nanosecond int64 clock
    case 7: s = 1700000000ull + c.range(0, 100000); break;
    default: s = c.range(0, ms); break;
  }
  if (s > ms) s = ms;
  uint64_t tm = c.range(0, 4);
  t = tm == 0 ? 0 : tm == 1 ? 1 % tps : tm == 2 ? tps - 1 : tm == 3 ? tps / 2 : c.range(0, tps - 1);
}
static void c17_arith(Case& cs) {
  Chooser& c = cs.c;
  uint64_t tps = pick_tps(c);
  uint64_t s, t, rs, rt;
  pick_ts(c, tps, s, t);
  pick_ts(c, tps, rs, rt);
  if (c.range(0, 3) == 0) { rs = s; if (c.coin()) rt = t; }          // same second / same instant
  Counters k;
  check_pair(s, t, rs, rt, tps, k);
  check_pair(rs, rt, s, t, tps, k);
  // offsets
  i128 it = inst(s, t, tps);
  uint64_t om = c.range(0, 8);
  i128 off;
  switch (om) {
    case 0: off = 0; break;
    case 1: off = 1; break;
    case 2: off = -1; break;
    case 3: off = (i128)tps; break;
    case 4: off = -(i128)tps; break;
    case 5: off = -it; break;                 // lands exactly on the epoch
    case 6: off = -it - 1; break;             // one tick before the epoch
    case 7: off = INT64_MIN; break;
    default: off = (i128)c.int_bits(64); break;
  }
  if (off < (i128)INT64_MIN) off = INT64_MIN;
  if (it + off >= LIM) off = LIM - 1 - it;    // precondition 5: the result stays below 2^63 ticks
  check_add(s, t, (int64_t)off, tps, k);
  if (c.range(0, 9) == 0) check_add(s, t, (int64_t)off, 0, k);
  cs.nontrivial = k.borrows || k.carries || k.refused || s >= 0x7FFFFFFFull || om >= 5;
  if (k.borrows) cs.st.cls("borrow"); if (k.carries) cs.st.cls("carry"); if (k.refused) cs.st.cls("refusal");
  if (om == 7) cs.st.cls("offset_INT64_MIN");
  if (s == gen::max_secs(tps)) cs.st.cls("largest_representable_second");
  cs.sample = "tps=" + std::to_string(tps) + " t=" + std::to_string(s) + "s+" + std::to_string(t) + " ref=" + std::to_string(rs) + "s+" + std::to_string(rt) + " off=" + s128(off);
}

int main(int argc, char** argv) {
  Registry r;
  r.add("c17_grid", c17_grid);
  r.add("c17_arith", c17_arith);
  return harness_main(argc, argv, r);
}
