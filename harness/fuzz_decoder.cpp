// libFuzzer target (C03): the tail of the input is an operation program for CdnsDecoder, the head is the stream.
#include "consume.hpp"
extern "C" int LLVMFuzzerTestOneInput(const uint8_t* data, size_t size) {
  size_t np = size < 2 ? 0 : 1 + data[size - 1] % 12;
  if (np + 1 > size) np = size ? size - 1 : 0;
  std::string program(reinterpret_cast<const char*>(data + (size ? size - 1 - np : 0)), np);
  std::string bytes(reinterpret_cast<const char*>(data), size ? size - 1 - np : 0);
  consume::Result r = consume::decoder(bytes, program);
  if (r.non_std) __builtin_trap();
  return 0;
}
