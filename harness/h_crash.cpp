// crash harness: C15 (a named output is visible under its final name only when complete; exhaustive
// crash points = process killed immediately before its k-th write/writev/rename) and C16 (output failures
// are reported, never swallowed; rotation recovers; exhaustive fault points on write/writev).
// write / writev / rename are interposed inside this executable (real ones through dlsym(RTLD_NEXT)).
#include <dirent.h>
#include <dlfcn.h>
#include <errno.h>
#include <fcntl.h>
#include <sys/stat.h>
#include <sys/uio.h>
#include <sys/wait.h>
#include <unistd.h>
#include <algorithm>
#include <sstream>

#include "cdns.h"

#include "cdns_ref.hpp"
#include "decomp.hpp"
#include "gen.hpp"
#include "harness.hpp"
#include "lib_adapter.hpp"

using namespace vf;
namespace M = model;
static const char* EXT[] = {"", ".gz", ".xz"};

// ---- interposer ----------------------------------------------------------------------------------
enum Mode { OFF, COUNT, EXIT_AT, FAIL_AT };
static volatile int g_mode = OFF;
static volatile long g_calls = 0, g_k = 0;
static int g_fault = 0;            // 0 ENOSPC, 1 EIO, 2 short write
static bool g_persistent = false;
static volatile int g_bad_fd = -1;
static ino_t g_bad_ino = 0;
static dev_t g_bad_dev = 0;
static volatile bool g_fired = false;
static volatile int g_fired_ctx = -1;   // value of g_ctx when the fault fired
static volatile int g_ctx = -1;         // set by the scenario runner: index of the API call being executed
static volatile int g_fired_out = -1, g_cur_out = 0;

typedef ssize_t (*write_t)(int, const void*, size_t);
typedef ssize_t (*writev_t)(int, const struct iovec*, int);
typedef int (*rename_t)(const char*, const char*);
static write_t real_write() { static write_t f = (write_t)dlsym(RTLD_NEXT, "write"); return f; }
static writev_t real_writev() { static writev_t f = (writev_t)dlsym(RTLD_NEXT, "writev"); return f; }
static rename_t real_rename() { static rename_t f = (rename_t)dlsym(RTLD_NEXT, "rename"); return f; }

// returns: -2 proceed normally, otherwise the value to return (errno set)
static ssize_t gate(int fd, size_t total, bool is_write, size_t* short_len) {
  if (g_mode == OFF || (is_write && fd < 3)) return -2;
  long n = ++g_calls;
  if (g_mode == EXIT_AT && n == g_k) _exit(0);
  if (g_mode == FAIL_AT && is_write) {
    // a persistent failure belongs to the file, not to the descriptor number (numbers are reused after close)
    bool same = false;
    if (g_persistent && g_fired && n != g_k) { struct stat sb; same = fstat(fd, &sb) == 0 && sb.st_ino == g_bad_ino && sb.st_dev == g_bad_dev; }
    bool hit = (n == g_k) || same;
    if (hit) {
      if (!g_fired) { g_fired = true; g_fired_ctx = g_ctx; g_fired_out = g_cur_out; g_bad_fd = fd; struct stat sb; if (fstat(fd, &sb) == 0) { g_bad_ino = sb.st_ino; g_bad_dev = sb.st_dev; } }
      if (g_fault == 2) { *short_len = total / 2; return -3; }
      errno = g_fault == 0 ? ENOSPC : EIO;
      return -1;
    }
  }
  return -2;
}
extern "C" ssize_t write(int fd, const void* buf, size_t n) {
  size_t sl = 0;
  ssize_t g = gate(fd, n, true, &sl);
  if (g == -1) return -1;
  if (g == -3) return sl ? real_write()(fd, buf, sl) : 0;
  return real_write()(fd, buf, n);
}
extern "C" ssize_t writev(int fd, const struct iovec* iov, int cnt) {
  size_t total = 0;
  for (int i = 0; i < cnt; i++) total += iov[i].iov_len;
  size_t sl = 0;
  ssize_t g = gate(fd, total, true, &sl);
  if (g == -1) return -1;
  if (g == -3) {   // short: write a proper prefix
    if (sl == 0) return 0;
    std::string tmp;
    for (int i = 0; i < cnt && tmp.size() < sl; i++) tmp.append((const char*)iov[i].iov_base, std::min(iov[i].iov_len, sl - tmp.size()));
    return real_write()(fd, tmp.data(), tmp.size());
  }
  return real_writev()(fd, iov, cnt);
}
extern "C" int rename(const char* a, const char* b) {
  size_t sl;
  gate(-1, 0, false, &sl);
  return real_rename()(a, b);
}

// ---- scenarios -----------------------------------------------------------------------------------
struct Rec { uint16_t txid; size_t name_len; int asn_len = -1; };
struct ScOp { int kind; std::vector<Rec> recs; int name = 0; bool exp = false; };   // 0 buffer, 1 write_block, 2 rotate
struct Scenario {
  int comp = 0; int kind = 0;     // kind 0 name, 1 fd
  uint64_t max_items = 3;
  std::vector<ScOp> ops;
  bool final_write = true;
  bool unwind = false;            // the exporter is destroyed while an application exception propagates (stack unwinding)
  int first_name = 0;
  std::vector<int> preexisting;   // names that exist (complete older outputs) before the run
  int name_kind[3] = {0, 0, 0};   // per name: 0 ordinary, 1 last path component 251..255 characters long, 2 '<name><suffix>.part' is occupied by a directory,
                                  // 3 a long '<name><suffix>.part' file is left over from an earlier run that was killed
  std::string show() const {
    std::ostringstream os;
    os << (comp == 0 ? "plain" : comp == 1 ? "gzip" : "xz") << (kind ? " fd" : " name") << " max=" << max_items << " first=n" << first_name << " pre={";
    for (int p : preexisting) os << "n" << p << " ";
    os << "}";
    for (int n = 0; n < 3; n++) if (name_kind[n]) os << " n" << n << (name_kind[n] == 1 ? "=long-name" : name_kind[n] == 2 ? "=part-blocked" : "=stale-part-file");
    os << ":";
    for (auto& o : ops) { if (o.kind == 0) { os << " buf("; for (auto& r : o.recs) { os << r.name_len; if (r.asn_len >= 0) os << "+asn" << r.asn_len; os << ","; } os << ")"; } else if (o.kind == 1) os << " write_block"; else os << " rotate(n" << o.name << ",export=" << o.exp << ")"; }
    os << (final_write ? " write_block" : "") << (unwind ? " destroy-during-unwinding" : " destroy");
    return os.str();
  }
};
static Scenario gen_scenario(Chooser& c, bool allow_fd, unsigned size) {
  Scenario s;
  s.comp = (int)c.range(0, 2);
  s.kind = allow_fd ? (int)c.range(0, 1) : 0;
  s.max_items = c.pick<uint64_t>({3, 1, 2, 10000});
  s.first_name = (int)c.range(0, 2);
  for (int n = 0; n < 3; n++) if (c.range(0, 3) == 0) s.preexisting.push_back(n);
  if (!allow_fd) for (int n = 0; n < 3; n++) { uint64_t k = c.range(0, 9); s.name_kind[n] = k == 6 ? 1 : k == 7 ? 2 : k >= 8 ? 3 : 0; }
  unsigned nops = (unsigned)c.range(1, 3 + size / 6);
  uint16_t tx = 1;
  unsigned rots = 0;
  for (unsigned i = 0; i < nops; i++) {
    ScOp o;
    uint64_t k = c.range(0, 5);
    if (k <= 2) {
      o.kind = 0;
      unsigned n = (unsigned)c.range(1, 4);
      for (unsigned j = 0; j < n; j++) o.recs.push_back(Rec{tx++, (size_t)c.pick<int>({10, 200, 3000, 9000, 30000})});
    } else if (k == 3) o.kind = 1;
    else if (rots < 3) { o.kind = 2; o.name = (int)c.range(0, 2); o.exp = c.coin(); rots++; }
    else o.kind = 1;
    s.ops.push_back(o);
  }
  s.final_write = c.coin();
  s.unwind = c.range(0, 3) == 0;
  return s;
}
static M::Fields rec_fields(const Rec& r) {
  M::Fields f;
  f[M::Q_TXID] = M::Val::Int(r.txid);
  std::string nm(r.name_len, 'n');
  for (size_t i = 0; i < nm.size(); i++) nm[i] = (char)('a' + (i * 7 + r.txid) % 26);
  f[M::Q_QNAME] = M::Val::Bytes(nm);
  if (r.asn_len >= 0) { std::string a(r.asn_len, 'a'); for (size_t i = 0; i < a.size(); i++) a[i] = (char)('A' + (i * 3 + r.txid) % 26); f[M::Q_ASN] = M::Val::Text(a); }
  return f;
}

struct CallLog { std::string what; bool threw = false; std::string exc; size_t q = 0; };
struct RunResult {
  std::vector<CallLog> calls;
  int first_throw = -1;
  std::vector<std::string> out_paths;          // final path per output index
  std::vector<int> closed_by_call;             // index of the call that closed each output (-1: destruction)
  std::vector<uint16_t> retained;              // model: txids still buffered when the first exception was thrown
  size_t counters_after_throw = 0;
  bool recovery_rotate_ok = false, recovery_done = false;
  bool ctor_failed = false;
  std::string recovery_exc, recovery_path;
};
// base name (without suffix) of output name n; long names make '<name><suffix>' fit NAME_MAX while '<name><suffix>.part' does not
static std::string name_base(const std::string& dir, const Scenario& s, int n) {
  std::string b = "n" + std::to_string(n);
  if (s.name_kind[n] == 1) b += std::string(253 - b.size() - strlen(EXT[s.comp]), 'L');
  return dir + "/" + b;
}
static std::string name_path(const std::string& dir, const Scenario& s, int n) { return name_base(dir, s, n) + EXT[s.comp]; }

// Runs the scenario in `dir`.  snaps: copy every closed output to dir/snaps (only the fault-free reference run).
// recover: after the first exception run the documented recovery and stop.
static RunResult run_scenario(const Scenario& s, const std::string& dir, bool snaps, bool recover) {
  RunResult R;
  M::Preamble pre; pre.bps.emplace_back();
  pre.bps[0].sp.hints.qr = gen::QR_ALL; pre.bps[0].sp.hints.sig = gen::SIG_ALL; pre.bps[0].sp.hints.rr = 3; pre.bps[0].sp.hints.other = 3;
  pre.bps[0].sp.max_items = s.max_items;
  CDNS::FilePreamble fp = adapt::lib_preamble(pre);
  unsigned fdno = 0, snapno = 0;
  auto open_fd = [&](std::string& path) {
    path = dir + "/fd" + std::to_string(fdno++);
    int saved = g_mode; g_mode = OFF;
    int fd = ::open(path.c_str(), O_WRONLY | O_CREAT | O_TRUNC, 0644);
    g_mode = saved;
    return fd;
  };
  auto snap = [&](const std::string& path) {
    if (!snaps) return;
    int saved = g_mode; g_mode = OFF;
    std::string b;
    if (read_file(path, b)) write_file(dir + "/snaps/" + std::to_string(snapno) + "_" + path.substr(path.rfind('/') + 1), b);
    snapno++;
    g_mode = saved;
  };
  std::vector<uint16_t> pending;   // model of the block being filled
  std::unique_ptr<CDNS::CdnsExporter> ex;
  std::string p0;
  g_cur_out = 0;
  try {
    if (s.kind == 0) { p0 = name_path(dir, s, s.first_name); ex.reset(new CDNS::CdnsExporter(fp, name_base(dir, s, s.first_name), (CDNS::CborOutputCompression)s.comp)); }
    else { int fd = open_fd(p0); ex.reset(new CDNS::CdnsExporter(fp, fd, (CDNS::CborOutputCompression)s.comp)); }
  } catch (const std::exception& e) {
    // an output that cannot be opened is refused by the constructor: nothing else happens in this scenario
    CallLog cl; cl.what = "constructor"; cl.threw = true; cl.exc = e.what();
    R.calls.push_back(cl);
    R.ctor_failed = true;
    return R;
  }
  R.out_paths.push_back(p0);
  R.closed_by_call.push_back(-1);
  bool stop = false;
  auto call = [&](const std::string& what, const std::function<void()>& f) {
    CallLog cl; cl.what = what;
    g_ctx = (int)R.calls.size();
    try { f(); } catch (const std::exception& e) { cl.threw = true; cl.exc = e.what(); }
    g_ctx = -1;
    R.calls.push_back(cl);
    if (cl.threw && R.first_throw < 0) {
      R.first_throw = (int)R.calls.size() - 1;
      R.retained = pending;
      R.counters_after_throw = ex->get_block_qr_count();
      if (recover) stop = true;
    }
    return !cl.threw;
  };
  for (auto& o : s.ops) {
    if (stop) break;
    if (o.kind == 0) {
      for (auto& r : o.recs) {
        if (stop) break;
        pending.push_back(r.txid);
        bool will_flush = pending.size() >= (s.max_items == 0 ? 1 : s.max_items);
        bool ok = call("buffer_qr", [&] { ex->buffer_qr(adapt::generic_qr(rec_fields(r))); });
        if (ok && will_flush) pending.clear();
      }
    } else if (o.kind == 1) {
      bool ok = call("write_block", [&] { ex->write_block(); });
      if (ok) pending.clear();
    } else {
      std::string np;
      int closing = (int)R.out_paths.size() - 1;
      bool ok;
      if (s.kind == 0) { np = name_path(dir, s, o.name); std::string base = name_base(dir, s, o.name); ok = call("rotate_output", [&] { ex->rotate_output(base, o.exp); }); }
      else { int fd = open_fd(np); ok = call("rotate_output", [&] { ex->rotate_output(fd, o.exp); }); }
      if (ok) {
        if (o.exp) pending.clear();
        R.closed_by_call[closing] = (int)R.calls.size() - 1;
        snap(R.out_paths[closing]);
        R.out_paths.push_back(np);
        R.closed_by_call.push_back(-1);
        g_cur_out = (int)R.out_paths.size() - 1;
      }
    }
  }
  if (!stop && s.final_write) { bool ok = call("write_block", [&] { ex->write_block(); }); if (ok) pending.clear(); }
  if (stop) {
    // documented recovery: rotate to a healthy destination (not exporting), write the retained block, destroy
    int saved = g_mode;
    std::string rp;
    try {
      if (s.kind == 0) { rp = dir + "/recovery" + EXT[s.comp]; ex->rotate_output(dir + "/recovery", false); }
      else { g_mode = OFF; int fd = ::open((rp = dir + "/recovery").c_str(), O_WRONLY | O_CREAT | O_TRUNC, 0644); g_mode = saved; ex->rotate_output(fd, false); }
      R.recovery_rotate_ok = true;
    } catch (const std::exception& e) { R.recovery_exc = e.what(); }
    R.recovery_path = rp;
    if (R.recovery_rotate_ok) {
      try { ex->write_block(); R.recovery_done = true; } catch (const std::exception& e) { R.recovery_exc = std::string("write_block after recovery: ") + e.what(); }
    }
  }
  g_ctx = 1000000;   // destruction
  if (s.unwind) {
    try { std::unique_ptr<CDNS::CdnsExporter> local = std::move(ex); throw std::logic_error("application error after the last block"); }
    catch (const std::logic_error&) {}
  } else ex.reset();
  g_ctx = -1;
  snap(R.out_paths.back());
  return R;
}

static void prepare_dir(const std::string& dir, const Scenario& s, std::map<std::string, std::set<std::string>>& allowed) {
  ::mkdir(dir.c_str(), 0755);
  ::mkdir((dir + "/snaps").c_str(), 0755);
  for (const char* sub : {"/snaps", ""}) {
    DIR* d = opendir((dir + sub).c_str());
    if (d) { while (dirent* e = readdir(d)) { std::string n = e->d_name; if (n != "." && n != ".." && n != "snaps") { if (::unlink((dir + sub + "/" + n).c_str()) != 0) ::rmdir((dir + sub + "/" + n).c_str()); } } closedir(d); }
  }
  for (int n = 0; n < 3; n++) if (s.name_kind[n] == 2) ::mkdir((name_path(dir, s, n) + ".part").c_str(), 0755);
  for (int n = 0; n < 3; n++) if (s.name_kind[n] == 3) { std::string old(96 * 1024, 'S'); for (size_t i = 0; i < old.size(); i += 61) old[i] = (char)('0' + (i / 61) % 10); write_file(name_path(dir, s, n) + ".part", old); }
  for (int n : s.preexisting) {
    std::string content = "complete older output n" + std::to_string(n) + " (left intact from before)";
    write_file(name_path(dir, s, n), content);
    allowed[name_path(dir, s, n).substr(dir.size() + 1)].insert(content);
  }
}
static std::vector<std::string> list_dir(const std::string& dir) {
  std::vector<std::string> v;
  DIR* d = opendir(dir.c_str());
  if (!d) return v;
  while (dirent* e = readdir(d)) { std::string n = e->d_name; if (n != "." && n != ".." && n != "snaps") v.push_back(n); }
  closedir(d);
  std::sort(v.begin(), v.end());
  return v;
}
static bool ends_with(const std::string& s, const std::string& suf) { return s.size() >= suf.size() && s.compare(s.size() - suf.size(), suf.size(), suf) == 0; }

// ---- C15 -------------------------------------------------------------------------------------------
static void c15_crash(Case& cs) {
  Chooser& c = cs.c;
  Scenario s = gen_scenario(c, false, cs.size);
  std::string desc = s.show();
  cs.sample = desc;
  if (cs.replay) printf("%s\n", desc.c_str());
  std::string dir = cs.scratch + "/c15";
  std::map<std::string, std::set<std::string>> allowed;   // final name -> contents that may be visible under it
  prepare_dir(dir, s, allowed);
  // reference run (fault free) in a child: counts the calls and leaves snapshots of every completed output
  int pfd[2];
  if (pipe(pfd)) abort();
  fflush(nullptr);
  pid_t pid = fork();
  if (pid == 0) {
    g_calls = 0; g_mode = COUNT;
    run_scenario(s, dir, true, false);
    g_mode = OFF;
    long n = g_calls;
    (void)!real_write()(pfd[1], &n, sizeof n);
    _exit(0);
  }
  close(pfd[1]);
  long N = -1;
  (void)!read(pfd[0], &N, sizeof N);
  close(pfd[0]);
  int st = 0;
  waitpid(pid, &st, 0);
  VF_CHECK(WIFEXITED(st) && WEXITSTATUS(st) == 0 && N >= 0, "sig=c15.reference_run_failed fault-free run of the scenario did not finish (status " << st << ") : " << desc);
  // completed contents per name
  for (auto& f : list_dir(dir + "/snaps")) {
    std::string b; read_file(dir + "/snaps/" + f, b);
    std::string name = f.substr(f.find('_') + 1);
    allowed[name].insert(b);
    // a completed output must itself be complete: valid stream, and empty or a valid document
    std::string plain, err;
    VF_CHECK(decompress(s.comp, b, plain, err), "sig=c15.completed_output_bad_stream completed output " << name << ": " << err << " : " << desc);
    if (!plain.empty()) { M::FileM fm; cdnsref::Report rep; bool wf = cdnsref::interpret(plain, fm, rep); VF_CHECK(wf && rep.ok(), "sig=c15.completed_output_invalid completed output " << name << " is not a valid document: " << rep.first() << " : " << desc); }
  }
  // every crash point
  size_t visible_checked = 0;
  for (long k = 1; k <= N; k++) {
    std::map<std::string, std::set<std::string>> dummy;
    prepare_dir(dir, s, dummy);
    fflush(nullptr);
    pid_t p = fork();
    if (p == 0) {
      g_calls = 0; g_k = k; g_mode = EXIT_AT;
      run_scenario(s, dir, false, false);
      _exit(0);
    }
    int st2 = 0;
    waitpid(p, &st2, 0);
    VF_CHECK(WIFEXITED(st2), "sig=c15.child_crashed child killed by signal at crash point " << k << " : " << desc);
    for (auto& f : list_dir(dir)) {
      if (ends_with(f, ".part")) continue;
      std::string b; read_file(dir + "/" + f, b);
      auto it = allowed.find(f);
      bool ok = it != allowed.end() && it->second.count(b);
      visible_checked++;
      if (!ok) {
        std::string plain, err;
        bool dec = decompress(s.comp, b, plain, err);
        VF_CHECK(false, "sig=c15.partial_output_visible process killed before its output call #" << k << " of " << N << ": file '" << f << "' (" << b.size() << " bytes"
                        << (dec ? ", decompresses to " + std::to_string(plain.size()) + " B" : ", stream incomplete: " + err) << ") is visible under a final name but is neither a pre-existing file nor a completed output : " << desc);
      }
    }
  }
  cs.st.cnt("crash_points", (uint64_t)N);
  cs.st.cnt("visible_files_checked", visible_checked);
  unsigned rots = 0; for (auto& o : s.ops) if (o.kind == 2) rots++;
  cs.nontrivial = N > 1 && (rots > 0 || s.comp != 0);
  cs.st.cls(s.comp == 0 ? "plain" : s.comp == 1 ? "gzip" : "xz");
  if (rots) cs.st.cls("with_rotation");
  if (!s.preexisting.empty()) cs.st.cls("preexisting_names");
  if (N >= 20) cs.st.cls("crash_points>=20");
}

// ---- C16 -------------------------------------------------------------------------------------------
static std::vector<uint16_t> txids_of(const std::string& plain, bool& valid, std::string& why) {
  std::vector<uint16_t> v;
  M::FileM fm; cdnsref::Report rep;
  valid = cdnsref::interpret(plain, fm, rep) && rep.ok();
  if (!valid) { why = rep.first(); return v; }
  for (auto& b : fm.blocks) for (auto& q : b.qrs) { auto it = q.find(M::Q_TXID); if (it != q.end()) v.push_back((uint16_t)it->second.i); }
  return v;
}
// Descriptors opened during a case and still open at its end (e.g. the new descriptor of a rotation that the library refused: closing
// it is the caller's business) are closed by the harness, so that thousands of cases per process do not exhaust the descriptor table.
struct FdSweep {
  std::set<int> before;
  static std::set<int> open_fds() {
    std::set<int> v;
    DIR* d = opendir("/proc/self/fd");
    if (!d) return v;
    int self = dirfd(d);
    while (dirent* e = readdir(d)) { if (e->d_name[0] == '.') continue; int fd = atoi(e->d_name); if (fd != self) v.insert(fd); }
    closedir(d);
    return v;
  }
  FdSweep() : before(open_fds()) {}
  ~FdSweep() { for (int fd : open_fds()) if (fd > 2 && !before.count(fd)) ::close(fd); }
};
static void c16_run(Case& cs, const Scenario& s);
static void c16_faults(Case& cs) {
  FdSweep sweep;
  Scenario s = gen_scenario(cs.c, true, cs.size);
  c16_run(cs, s);
}
// exhaustive alignment sweep: one block whose last item is a text string of every length, closed by rotate_output(fd, false):
// the encoder buffer is exactly full at the rotation for some length, which makes write_break() itself issue a write
static void c16_align(Case& cs) {
  FdSweep sweep;
  Chooser& c = cs.c;
  Scenario s;
  size_t L = (size_t)c.range(0, 2250);        // first choice = sharding dimension
  int variant = (int)c.range(0, 2);           // what ends the block: asn text / nothing but integers / asn of 24 bytes and a long name
  s.comp = 0; s.kind = 1; s.max_items = 10000;
  ScOp b; b.kind = 0;
  Rec r; r.txid = 7; r.name_len = variant == 2 ? L : 10; r.asn_len = variant == 0 ? (int)L : variant == 2 ? 24 : -1;
  if (variant == 1) r.name_len = L;
  b.recs.push_back(r);
  s.ops.push_back(b);
  ScOp w; w.kind = 1; s.ops.push_back(w);
  ScOp rot; rot.kind = 2; rot.name = 1; rot.exp = false; s.ops.push_back(rot);
  s.final_write = false;
  c16_run(cs, s);
  cs.st.cls("aligned_scenario");
}
static void c16_run(Case& cs, const Scenario& s) {
  std::string desc = s.show();
  cs.sample = desc;
  if (cs.replay) printf("%s\n", desc.c_str());
  std::string dir = cs.scratch + "/c16";
  std::map<std::string, std::set<std::string>> dummy;
  // fault-free reference run (in-process)
  prepare_dir(dir, s, dummy);
  g_calls = 0; g_fired = false; g_mode = COUNT;
  RunResult ref = run_scenario(s, dir, false, false);
  g_mode = OFF;
  long N = g_calls;
  VF_CHECK(ref.first_throw < 0, "sig=c16.reference_run_threw fault-free run threw: " << ref.calls[ref.first_throw].what << ": " << ref.calls[ref.first_throw].exc << " : " << desc);
  std::vector<std::string> ref_content(ref.out_paths.size());
  for (size_t i = 0; i < ref.out_paths.size(); i++) read_file(ref.out_paths[i], ref_content[i]);
  // note: two outputs may share a path (rotation onto an earlier name): only the last content is on disk; such outputs are skipped in (a)
  std::map<std::string, int> path_uses;
  for (auto& p : ref.out_paths) path_uses[p]++;

  size_t fired = 0, lost = 0;
  for (long k = 1; k <= N; k++) {
    for (int fault = 0; fault < 3; fault++) {
      for (int pers = 0; pers < 2; pers++) {
        if (fault == 2 && pers == 1) continue;   // a persistently short write is a persistent failure of kind ENOSPC for the caller
        prepare_dir(dir, s, dummy);
        g_calls = 0; g_k = k; g_fault = fault; g_persistent = pers; g_fired = false; g_bad_fd = -1; g_fired_ctx = -1; g_fired_out = -1;
        g_mode = FAIL_AT;
        RunResult r = run_scenario(s, dir, false, true);
        g_mode = OFF;
        if (!g_fired) continue;   // the k-th call was a rename
        fired++;
        static const char* FN[] = {"ENOSPC", "EIO", "short write"};
        std::string fdesc = std::string(FN[fault]) + (pers ? " persistent" : " once") + " at output call #" + std::to_string(k) + "/" + std::to_string(N);
        int X = g_fired_out;
        bool in_destruction = g_fired_ctx == 1000000;
        std::string during = g_fired_ctx >= 0 && g_fired_ctx < (int)r.calls.size() ? r.calls[g_fired_ctx].what : (in_destruction ? "destruction" : "recovery");
        std::string sigtail = std::string(s.kind ? "fd" : "name") + "." + (s.comp == 0 ? "plain" : s.comp == 1 ? "gzip" : "xz") + "." + during + "." + (fault == 2 ? "short" : pers ? "persistent" : "once");
        cs.st.cls("fault_during:" + during);
        if (in_destruction || during == "recovery") continue;   // destruction cannot throw: outside the guarantee
        if (r.first_throw < 0) {
          // (a) nobody threw: then output X must not have lost anything
          if (X >= 0 && X < (int)r.out_paths.size() && X < (int)ref.out_paths.size() && path_uses[ref.out_paths[X]] == 1) {
            std::string now; read_file(r.out_paths[X], now);
            if (now != ref_content[X]) {
              lost++;
              std::string sig = "c16.a." + sigtail;
              if (!is_known(cs.st, sig))
                VF_CHECK(false, "sig=" << sig << " " << fdesc << " hit output #" << X << " during " << during << "; no API call threw up to the end of the scenario, but the output differs from the fault-free one (" << now.size() << " vs "
                                       << ref_content[X].size() << " bytes) : " << desc);
            }
          }
          continue;
        }
        lost++;
        // (a') the exception must come no later than the rotate_output that closed X
        if (X >= 0 && X < (int)r.closed_by_call.size() && r.closed_by_call[X] >= 0 && r.first_throw > r.closed_by_call[X]) {
          std::string sig = "c16.a_late." + sigtail;
          if (!is_known(cs.st, sig)) VF_CHECK(false, "sig=" << sig << " " << fdesc << ": the first exception came from call #" << r.first_throw << " (" << r.calls[r.first_throw].what << "), after the rotate_output (#" << r.closed_by_call[X] << ") that closed the damaged output : " << desc);
        }
        const CallLog& tc = r.calls[r.first_throw];
        // (b) retention
        if (tc.what == "buffer_qr" || tc.what == "write_block") {
          if (r.counters_after_throw != r.retained.size()) {
            std::string sig = "c16.b." + sigtail;
            if (!is_known(cs.st, sig)) VF_CHECK(false, "sig=" << sig << " " << fdesc << ": after the exception from " << tc.what << " (" << tc.exc << ") the exporter reports " << r.counters_after_throw << " buffered q/r items, the failed block had " << r.retained.size() << " : " << desc);
          }
        }
        // (c) recovery
        if (!r.recovery_rotate_ok || !r.recovery_done) {
          std::string sig = "c16.c_rotate." + sigtail;
          if (!is_known(cs.st, sig)) VF_CHECK(false, "sig=" << sig << " " << fdesc << ": after the exception from " << tc.what << " the recovery (rotate_output to a healthy destination, write_block) failed: " << r.recovery_exc << " : " << desc);
          continue;
        }
        {
          // The records of the failed block (F) must be conserved: each exactly once in the recovery output or - when the
          // retried flush completed the damaged output after all - in output X, provided X is a complete valid document.
          std::string raw, plain, err;
          read_file(r.recovery_path, raw);
          bool dec = decompress(s.comp, raw, plain, err);
          bool valid = false; std::string why;
          std::vector<uint16_t> got;
          if (dec && !plain.empty()) got = txids_of(plain, valid, why); else if (dec && plain.empty()) valid = true;
          std::vector<uint16_t> inX;
          if (X >= 0 && X < (int)r.out_paths.size()) {
            std::string xr, xp, xe; bool xv = false; std::string xw;
            if (read_file(r.out_paths[X], xr) && decompress(s.comp, xr, xp, xe) && !xp.empty()) { std::vector<uint16_t> t = txids_of(xp, xv, xw); if (xv) inX = t; }
          }
          std::string problem;
          if (!dec) problem = "recovery output is not a complete stream: " + err;
          else if (!valid) problem = "recovery output is not a valid document: " + why;
          else {
            std::set<uint16_t> F(r.retained.begin(), r.retained.end());
            for (uint16_t t : got) if (!F.count(t)) problem = "recovery output holds record " + std::to_string(t) + " which was not part of the failed block";
            for (uint16_t t : r.retained) {
              size_t n = std::count(got.begin(), got.end(), t) + std::count(inX.begin(), inX.end(), t);
              if (n != 1) problem = "record " + std::to_string(t) + " of the failed block appears " + std::to_string(n) + " times in the recovery output and the (valid) damaged output";
            }
          }
          if (!problem.empty()) {
            std::string sig = "c16.c_content." + sigtail;
            if (!is_known(cs.st, sig)) VF_CHECK(false, "sig=" << sig << " " << fdesc << ": after the exception from " << tc.what << " and the documented recovery: " << problem << " (failed block had " << r.retained.size() << " records, recovery holds " << got.size() << ") : " << desc);
          }
        }
      }
    }
  }
  cs.st.cnt("fault_points", (uint64_t)N);
  cs.st.cnt("faults_fired", fired);
  cs.st.cnt("faults_with_loss", lost);
  cs.nontrivial = fired > 0 && lost > 0;
  cs.st.cls(std::string(s.kind ? "fd:" : "name:") + (s.comp == 0 ? "plain" : s.comp == 1 ? "gzip" : "xz"));
}

int main(int argc, char** argv) {
  Registry r;
  r.add("c15_crash", c15_crash);
  r.add("c16_faults", c16_faults);
  r.add("c16_align", c16_align);
  return harness_main(argc, argv, r);
}
