// libFuzzer target (C08, thorough tier): the input bytes are the CHOICES of the C08 generator (FuzzChooser), so
// coverage feedback steers the rewrite plan towards the reader's default: / indefinite-length / chunked branches.
#include <sys/stat.h>
#include <unistd.h>
#include <sstream>

#include "cdns.h"

#include "cdns_ref.hpp"
#include "filegen.hpp"
#include "harness.hpp"
#include "lib_adapter.hpp"

namespace M = model;
#include "c08_core.inc"

extern "C" int LLVMFuzzerTestOneInput(const uint8_t* data, size_t size) {
  static std::string scratch;
  if (scratch.empty()) {
    const char* base = getenv("VF_SCRATCH");
    scratch = std::string(base ? base : "/tmp") + "/fuzz_rewrite." + std::to_string(getpid());
    ::mkdir(scratch.c_str(), 0755);
  }
  vf::FuzzChooser fc(data, size);
  C08Out o;
  std::string msg = c08_core(fc, scratch, 20, o, false);
  if (!msg.empty()) { fprintf(stderr, "C08 VIOLATION %s\n", msg.substr(0, 3000).c_str()); fflush(stderr); __builtin_trap(); }
  return 0;
}
