// codec harness: C06 (encoder = RFC 8949 preferred encoding, independent of buffer position),
// C07 (decoder accepts every well-formed encoding; skip_item consumes exactly one item),
// decoder part of C05 (end of input always detected).
#include <sys/mman.h>
#include <sys/stat.h>
#include <fstream>
#include <sstream>

#include "cdns_decoder.h"
#include "cdns_encoder.h"

#include "cbor_ref.hpp"
#include "decomp.hpp"
#include "harness.hpp"

using namespace vf;
using CDNS::CdnsDecoder;
using CDNS::CdnsEncoder;
using CDNS::CborOutputCompression;

static const size_t EBUF = CdnsEncoder::BUFFER_SIZE;
static const size_t DBUF = CdnsDecoder::BUFFER_SIZE;

// ------------------------------------------------------------------------------------------
// C06
// ------------------------------------------------------------------------------------------
enum Op {
  OP_ARR, OP_IARR, OP_MAP, OP_IMAP, OP_BSTR_P, OP_BSTR_S, OP_TSTR_P, OP_TSTR_S, OP_BREAK, OP_BOOL,
  OP_U8, OP_U16, OP_U32, OP_U64, OP_I8, OP_I16, OP_I32, OP_I64, OP_COUNT
};
static const char* OPN[] = {"array_start", "indef_array_start", "map_start", "indef_map_start", "bytestring(ptr)", "bytestring(str)",
                            "textstring(ptr)", "textstring(str)", "break", "bool", "u8", "u16", "u32", "u64", "i8", "i16", "i32", "i64"};

struct Call {
  int op;
  uint64_t u = 0;   // unsigned arg / length
  int64_t s = 0;    // signed arg
  uint8_t pat = 0;  // string content pattern
};
static std::string str_content(size_t len, uint8_t pat) {
  std::string s(len, '\0');
  if (pat >= 128) {   // incompressible content (half of the patterns): a compressor has to emit about as much as it takes in
    uint64_t x = 0x9E3779B97F4A7C15ull * (pat + 1) + len;
    for (size_t i = 0; i < len; i++) { x ^= x << 13; x ^= x >> 7; x ^= x << 17; s[i] = (char)(x >> 32); }
    return s;
  }
  for (size_t i = 0; i < len; i++) s[i] = (char)((pat + i * 7 + (i >> 8)) & 0xFF);
  return s;
}
// expected (reference) encoding of one call
static std::string ref_encode(const Call& c) {
  std::string o;
  auto sint = [&](int64_t v) { if (v >= 0) cref::put_head_min(o, cref::UINT, (uint64_t)v); else cref::put_head_min(o, cref::NINT, (uint64_t)(-1 - (__int128)v)); };
  switch (c.op) {
    case OP_ARR: cref::put_head_min(o, cref::ARR, c.u); break;
    case OP_IARR: o.push_back((char)0x9F); break;
    case OP_MAP: cref::put_head_min(o, cref::MAP, c.u); break;
    case OP_IMAP: o.push_back((char)0xBF); break;
    case OP_BSTR_P: case OP_BSTR_S: cref::put_head_min(o, cref::BSTR, c.u); o += str_content(c.u, c.pat); break;
    case OP_TSTR_P: case OP_TSTR_S: cref::put_head_min(o, cref::TSTR, c.u); o += str_content(c.u, c.pat); break;
    case OP_BREAK: o.push_back((char)0xFF); break;
    case OP_BOOL: o.push_back((char)(c.u ? 0xF5 : 0xF4)); break;
    case OP_U8: case OP_U16: case OP_U32: case OP_U64: cref::put_head_min(o, cref::UINT, c.u); break;
    default: sint(c.s); break;
  }
  return o;
}
static size_t do_call(CdnsEncoder& e, const Call& c) {
  switch (c.op) {
    case OP_ARR: return e.write_array_start(c.u);
    case OP_IARR: return e.write_indef_array_start();
    case OP_MAP: return e.write_map_start(c.u);
    case OP_IMAP: return e.write_indef_map_start();
    case OP_BSTR_P: { std::string s = str_content(c.u, c.pat); return e.write_bytestring(reinterpret_cast<const unsigned char*>(s.data()), s.size()); }
    case OP_BSTR_S: return e.write_bytestring(str_content(c.u, c.pat));
    case OP_TSTR_P: { std::string s = str_content(c.u, c.pat); return e.write_textstring(reinterpret_cast<const unsigned char*>(s.data()), s.size()); }
    case OP_TSTR_S: return e.write_textstring(str_content(c.u, c.pat));
    case OP_BREAK: return e.write_break();
    case OP_BOOL: return e.write((bool)c.u);
    case OP_U8: return e.write((uint8_t)c.u);
    case OP_U16: return e.write((uint16_t)c.u);
    case OP_U32: return e.write((uint32_t)c.u);
    case OP_U64: return e.write((uint64_t)c.u);
    case OP_I8: return e.write((int8_t)c.s);
    case OP_I16: return e.write((int16_t)c.s);
    case OP_I32: return e.write((int32_t)c.s);
    default: return e.write((int64_t)c.s);
  }
}
static std::string show_call(const Call& c) {
  std::ostringstream os;
  os << OPN[c.op] << "(";
  if (c.op >= OP_I8) os << c.s; else os << c.u;
  os << ")";
  return os.str();
}
static bool is_str(int op) { return op >= OP_BSTR_P && op <= OP_TSTR_S; }
static bool near_boundary(const Call& c) {
  static const uint64_t B[] = {23, 24, 255, 256, 65535, 65536, 0xFFFFFFFFull, 0x100000000ull};
  uint64_t v = c.op >= OP_I8 ? (c.s >= 0 ? (uint64_t)c.s : (uint64_t)(-1 - (__int128)c.s)) : c.u;
  for (uint64_t b : B) if (v + 1 >= b && v <= b + 1) return true;
  return false;
}

static const uint64_t UB[] = {0, 1, 23, 24, 255, 256, 65535, 65536, 0xFFFFFFFFull, 0x100000000ull, 0x7FFFFFFFFFFFFFFFull, 0x8000000000000000ull, ~0ull};
static uint64_t clipu(uint64_t v, unsigned bits) { uint64_t m = bits >= 64 ? ~0ull : ((1ull << bits) - 1); return v > m ? m : v; }
static int64_t clips(__int128 v, unsigned bits) {
  __int128 lo = -((__int128)1 << (bits - 1)), hi = ((__int128)1 << (bits - 1)) - 1;
  if (v < lo) v = lo;
  if (v > hi) v = hi;
  return (int64_t)v;
}
static unsigned op_bits(int op) {
  switch (op) { case OP_U8: case OP_I8: return 8; case OP_U16: case OP_I16: return 16; case OP_U32: case OP_I32: return 32; default: return 64; }
}

// memfd-backed output: the encoder gets (and closes) one descriptor, the harness reads a dup
struct FdOut {
  int keep = -1;
  int give() {
    int fd = memfd_create("vf", 0);
    if (fd < 0) { perror("memfd_create"); abort(); }
    keep = dup(fd);
    return fd;
  }
  std::string content() {
    std::string out;
    struct stat st;
    fstat(keep, &st);
    out.resize(st.st_size);
    size_t off = 0;
    while (off < out.size()) {
      ssize_t r = pread(keep, &out[off], out.size() - off, off);
      if (r <= 0) break;
      off += r;
    }
    return out;
  }
  ~FdOut() { if (keep >= 0) close(keep); }
};

// filler that brings a fresh encoder to fill level f (0..BUFFER_SIZE) through the public API
static void make_filler(size_t f, std::vector<Call>& out) {
  if (f == 0) return;
  // one bytestring of total size f or f-1, plus one bool
  for (int extra = 0; extra <= 1; extra++) {
    size_t t = f - extra;
    if (t == 0) { if (extra) { Call b; b.op = OP_BOOL; b.u = 1; out.push_back(b); } return; }
    for (size_t h = 1; h <= 3; h++) {
      if (t < h) continue;
      size_t L = t - h;
      size_t need = L < 24 ? 1 : L < 256 ? 2 : 3;
      if (need == h) {
        if (extra) { Call b; b.op = OP_BOOL; b.u = 1; out.push_back(b); }
        Call s; s.op = OP_BSTR_S; s.u = L; s.pat = (uint8_t)f;
        out.push_back(s);
        return;
      }
    }
  }
  abort();
}

// (a) exhaustive: fill level x operation x boundary argument
static void c06_cell(Case& cs) {
  Chooser& c = cs.c;
  size_t f = c.range(0, EBUF);
  Call call;
  call.op = (int)c.range(0, OP_COUNT - 1);
  call.pat = (uint8_t)(f * 31 + call.op);
  unsigned bits = op_bits(call.op);
  if (is_str(call.op)) {
    size_t A = EBUF - f;  // bytes free before the call
    const size_t L[] = {0, 1, 23, 24, 255, 256, A >= 3 ? A - 3 : 0, A >= 2 ? A - 2 : 0, A >= 1 ? A - 1 : 0, A, A + 1, EBUF - 1, EBUF, EBUF + 1, 3 * EBUF + 5, 65536};
    call.u = L[c.range(0, 15)];
  } else if (call.op == OP_IARR || call.op == OP_IMAP || call.op == OP_BREAK) {
  } else if (call.op == OP_BOOL) {
    call.u = c.range(0, 1);
  } else if (call.op >= OP_I8) {
    uint64_t i = c.range(0, 25);
    __int128 v = (i < 13) ? (__int128)UB[i] : -(__int128)UB[i - 13] - 1;
    call.s = clips(v, bits);
  } else {
    call.u = clipu(UB[c.range(0, 12)], call.op == OP_ARR || call.op == OP_MAP ? 64 : bits);
  }

  std::vector<Call> seq;
  make_filler(f, seq);
  size_t nfill = seq.size();
  seq.push_back(call);
  // a trailing sentinel shows that the state after the call is consistent as well
  Call sent; sent.op = OP_U16; sent.u = 0xABCD;
  seq.push_back(sent);

  FdOut out;
  std::string expect;
  {
    CdnsEncoder enc(out.give(), CborOutputCompression::NO_COMPRESSION);
    for (size_t i = 0; i < seq.size(); i++) {
      std::string r = ref_encode(seq[i]);
      size_t ret = do_call(enc, seq[i]);
      expect += r;
      if (i >= nfill)
        VF_CHECK(ret == r.size(), "sig=c06.return_value fill=" << f << " call " << show_call(seq[i]) << " returned " << ret << ", reference encoding has " << r.size() << " bytes");
    }
  }
  std::string got = out.content();
  if (cs.replay) printf("fill=%zu call=%s\n expect=%s\n got=%s\n", f, show_call(call).c_str(), hex(expect.substr(expect.size() > 40 ? expect.size() - 40 : 0)).c_str(), hex(got.substr(got.size() > 40 ? got.size() - 40 : 0)).c_str());
  VF_CHECK(got == expect, "sig=c06.bytes fill=" << f << " call " << show_call(call) << ": output differs from reference encoding (got " << got.size() << " bytes, expected " << expect.size() << ")");
  size_t head = ref_encode(call).size() - (is_str(call.op) ? call.u : 0);
  cs.nontrivial = (f + 9 >= EBUF) || (is_str(call.op) && f + head + call.u > EBUF) || near_boundary(call);
  if (cs.nontrivial && (f % 97 == 0)) cs.sample = "fill=" + std::to_string(f) + " " + show_call(call);
  cs.st.cls(std::string("op:") + OPN[call.op]);
  if (f + 9 >= EBUF) cs.st.cls("fill_in_threshold_window");
  if (is_str(call.op) && f + head + call.u > EBUF) cs.st.cls("string_spans_flush");
}

// (b) exhaustive values of the 8/16-bit overloads
static void c06_vals(Case& cs) {
  int which = (int)cs.c.range(0, 3);
  int op = which == 0 ? OP_U8 : which == 1 ? OP_I8 : which == 2 ? OP_U16 : OP_I16;
  unsigned bits = op_bits(op);
  uint64_t n = 1ull << bits;
  // several start offsets so that every value also meets different buffer positions
  for (size_t start = 0; start < 3; start++) {
    FdOut out;
    std::string expect;
    {
      CdnsEncoder enc(out.give(), CborOutputCompression::NO_COMPRESSION);
      for (size_t i = 0; i < start; i++) { Call b; b.op = OP_BOOL; b.u = 0; expect += ref_encode(b); do_call(enc, b); }
      for (uint64_t i = 0; i < n; i++) {
        Call k; k.op = op;
        if (op == OP_U8 || op == OP_U16) k.u = i; else k.s = (int64_t)i - (int64_t)(n / 2);
        std::string r = ref_encode(k);
        size_t ret = do_call(enc, k);
        VF_CHECK(ret == r.size(), "sig=c06.return_value " << show_call(k) << " returned " << ret << " expected " << r.size());
        expect += r;
      }
    }
    VF_CHECK(out.content() == expect, "sig=c06.bytes exhaustive " << OPN[op] << " values: output differs from reference (start offset " << start << ")");
    cs.st.cnt("exhaustive_values_checked", n);
  }
  cs.nontrivial = true;
  cs.sample = std::string("all 2^") + std::to_string(bits) + " values of " + OPN[op];
}

// (c) random call sequences over all output kinds
static Call gen_call(Chooser& c, unsigned size) {
  Call k;
  k.op = (int)c.range(0, OP_COUNT - 1);
  k.pat = (uint8_t)c.range(0, 255);
  unsigned bits = op_bits(k.op);
  if (is_str(k.op)) {
    uint64_t m = c.range(0, 5);
    if (m <= 2) k.u = c.range(0, 40);
    else if (m == 3) k.u = c.pick<uint64_t>({23, 24, 255, 256, EBUF - 3, EBUF - 2, EBUF - 1, EBUF, EBUF + 1});
    else if (m == 4) k.u = c.range(0, 3 * EBUF + 10);
    else k.u = c.range(0, size >= 60 ? 70000 : 5000);
  } else if (k.op == OP_BOOL) k.u = c.range(0, 1);
  else if (k.op >= OP_I8) k.s = c.int_bits(bits);
  else k.u = c.uint_bits(k.op == OP_ARR || k.op == OP_MAP ? 64 : bits);
  return k;
}
static void c06_seq(Case& cs) {
  Chooser& c = cs.c;
  int comp = (int)c.range(0, 2);
  bool named = c.coin();
  unsigned n = (unsigned)c.range(1, 10 + cs.size * 3);
  std::vector<Call> seq;
  for (unsigned i = 0; i < n; i++) seq.push_back(gen_call(c, cs.size));
  if (c.range(0, 7) == 0) {   // volume: 100..600 KB of mostly incompressible strings in pieces of 100..3000 bytes
    unsigned m = (unsigned)c.range(100, 300);
    for (unsigned i = 0; i < m; i++) { Call k; k.op = c.coin() ? OP_BSTR_S : OP_BSTR_P; k.u = c.range(100, 3000); k.pat = (uint8_t)(128 + (i * 37 + n) % 128); seq.push_back(k); }
    cs.st.cls("volume_of_incompressible_strings");
  }
  std::string expect, raw;
  FdOut out;
  std::string name = cs.scratch + "/c06out";
  static const char* EXT[] = {"", ".gz", ".xz"};
  bool boundary = false;
  // a quarter of the encoders are destroyed while an application exception propagates through their scope (what the calls
  // returned as appended must reach the output all the same)
  bool unwind = c.range(0, 3) == 0;
  struct AppError {};
  std::string pending_failure;
  try {
    std::unique_ptr<CdnsEncoder> enc;
    if (named) enc.reset(new CdnsEncoder(name, (CborOutputCompression)comp));
    else enc.reset(new CdnsEncoder(out.give(), (CborOutputCompression)comp));
    for (auto& k : seq) {
      std::string r = ref_encode(k);
      size_t ret = do_call(*enc, k);
      if (ret != r.size()) { std::ostringstream os; os << "sig=c06.return_value " << show_call(k) << " returned " << ret << ", reference " << r.size() << " (offset " << expect.size() << ")"; pending_failure = os.str(); break; }
      expect += r;
      boundary |= near_boundary(k);
    }
    if (unwind && pending_failure.empty()) throw AppError();
  } catch (const AppError&) {}
  VF_CHECK(pending_failure.empty(), pending_failure);
  if (named) {
    VF_CHECK(read_file(name + EXT[comp], raw), "sig=c06.named_output_missing " << name << EXT[comp]);
    ::unlink((name + EXT[comp]).c_str());
  } else raw = out.content();
  std::string got, err;
  VF_CHECK(decompress(comp, raw, got, err), "sig=c06.decompress " << err);
  if (got != expect) {
    size_t i = 0;
    while (i < got.size() && i < expect.size() && got[i] == expect[i]) i++;
    VF_CHECK(false, "sig=c06.bytes sequence output differs from reference at offset " << i << " (got " << got.size() << " B, expected " << expect.size() << " B)");
  }
  cs.nontrivial = expect.size() > EBUF && boundary;
  cs.st.cls(std::string("out:") + (named ? "name" : "fd") + EXT[comp]);
  if (expect.size() > EBUF) cs.st.cls("crossed_flush");
  if (unwind) cs.st.cls("encoder_destroyed_during_unwinding");
  if (cs.nontrivial) { cs.sample = std::to_string(n) + " calls, " + std::to_string(expect.size()) + " B, first: "; for (size_t i = 0; i < seq.size() && i < 6; i++) cs.sample += show_call(seq[i]) + " "; }
}

#include "h_codec_dec.inc"

int main(int argc, char** argv) {
  Registry r;
  r.add("c06_cell", c06_cell);
  r.add("c06_vals", c06_vals);
  r.add("c06_seq", c06_seq);
  register_decoder_props(r);
  return harness_main(argc, argv, r);
}
