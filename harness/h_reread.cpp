// reread harness: CdnsReader over truncated (C05), equivalently re-encoded (C08) and generated
// preamble (C09) files.
#include <sstream>

#include "cdns.h"

#include "cdns_ref.hpp"
#include "filegen.hpp"
#include "harness.hpp"
#include "lib_adapter.hpp"

using namespace vf;
namespace M = model;
static const size_t DBUF = CDNS::CdnsDecoder::BUFFER_SIZE;

#include "c08_core.inc"

// ---- C05 (file level) ---------------------------------------------------------------------------
// sets the sampling-method text of parameter set 0 to `len` filler characters (valid C-DNS, same structure)
static bool set_padding(cref::Node& root, size_t len) {
  if (root.kids.size() != 3) return false;
  cref::Node& pre = root.kids[1];
  for (size_t i = 0; i + 1 < pre.kids.size(); i += 2) {
    if (pre.kids[i].is_uint() && pre.kids[i].arg == 3 && !pre.kids[i + 1].kids.empty()) {
      cref::Node& bp0 = pre.kids[i + 1].kids[0];
      for (size_t j = 0; j + 1 < bp0.kids.size(); j += 2) {
        if (bp0.kids[j].is_uint() && bp0.kids[j].arg == 0) {
          cref::Node& sp = bp0.kids[j + 1];
          for (size_t k = 0; k + 1 < sp.kids.size(); k += 2)
            if (sp.kids[k].is_uint() && sp.kids[k].arg == 10) { sp.kids[k + 1] = cref::mk_tstr(std::string(len, 'p')); return true; }
          sp.kids.push_back(cref::mk_uint(10));
          sp.kids.push_back(cref::mk_tstr(std::string(len, 'p')));
          sp.arg = sp.kids.size() / 2;
          return true;
        }
      }
    }
  }
  return false;
}
static bool g_definite_blocks = false;   // per case: emit the block array with a definite length (valid C-DNS, not what the exporter writes)
static std::string encode_file(const cref::Node& root) {
  // the exporter writes: definite array(3), text, preamble, indefinite array of blocks
  std::string o;
  cref::put_head_min(o, cref::ARR, 3);
  cref::encode(root.kids[0], o);
  cref::encode(root.kids[1], o);
  if (g_definite_blocks) cref::put_head_min(o, cref::ARR, root.kids[2].kids.size()); else o.push_back((char)0x9F);
  for (auto& b : root.kids[2].kids) cref::encode(b, o);
  if (!g_definite_blocks) o.push_back((char)0xFF);
  return o;
}

static void c05_file(Case& cs) {
  Chooser& c = cs.c;
  filegen::Opts fo;
  fo.max_records = 10 + cs.size / 2;
  fo.max_items = {1, 2, 3, 5};
  fo.big = 200;
  filegen::Result fr = filegen::make(c, cs.scratch, fo);
  cref::Node root; std::string err;
  if (!cref::parse_all(fr.bytes, root, err)) { cs.st.cnt("blocked:generated_file_not_well_formed"); return; }
  // variant: definite-length block array whose last block ends with a long string (an unknown member carrying 70 000 or
  // 140 000 bytes): then nothing follows the string, and a reader that fabricates its tail would return the block as complete
  g_definite_blocks = c.range(0, 3) == 0;
  if (g_definite_blocks && !root.kids[2].kids.empty() && root.kids[2].kids.back().major == cref::MAP) {
    cref::Node& last = root.kids[2].kids.back();
    last.kids.push_back(cref::mk_uint(99));
    last.kids.push_back(c.coin() ? cref::mk_bstr(std::string(c.coin() ? 70000 : 140000, 'T')) : cref::mk_tstr(std::string(c.coin() ? 65535 : 100000, 't')));
    last.arg = last.kids.size() / 2;
    cs.st.cls("definite_block_array_ending_in_long_string");
  }
  // alignment: make |f|, a block end, or the start of the block array fall on (a multiple of the window) + d
  int amode = (int)c.range(0, 3);
  int dlt = (int)c.range(0, 6) - 3;
  unsigned mult = (unsigned)c.range(1, 2);
  std::string file = encode_file(root);
  if (amode != 0) {
    // current position of the anchor with zero padding, then pad so that anchor = mult*DBUF + dlt
    set_padding(root, 0);
    std::string f0 = encode_file(root);
    M::FileM fm; cdnsref::Report rp;
    if (!cdnsref::interpret(f0, fm, rp) || fm.blocks.empty()) { cs.st.cnt("blocked:no_blocks"); return; }
    size_t anchor;
    if (amode == 1) anchor = f0.size();
    else if (amode == 2) anchor = fm.blocks[c.range(0, fm.blocks.size() - 1)].end;
    else anchor = fm.blocks[0].begin;
    size_t want = (size_t)mult * DBUF + dlt;
    if (want > anchor) {
      size_t pad = want - anchor;
      // the text head grows with the length: solve by trying the three candidates
      for (size_t guess : {pad, pad - 1, pad - 2, pad - 4, pad - 3}) {
        if (guess > pad) continue;
        set_padding(root, guess);
        std::string f1 = encode_file(root);
        if (f1.size() - f0.size() == pad) { file = f1; break; }
      }
    }
    if (file.size() < DBUF) { set_padding(root, 10); file = encode_file(root); }
  }
  M::FileM full; cdnsref::Report rep;
  if (!cdnsref::interpret(file, full, rep) || !rep.ok()) VF_CHECK(false, "sig=c05.harness generated file does not validate: " << rep.first());
  LibRead whole = lib_read(file, true);
  VF_CHECK(whole.ctor_ok && whole.eof && whole.blocks.size() == full.blocks.size(),
           "sig=c05.full_file the complete file (" << file.size() << " B, " << full.blocks.size() << " blocks) was not read to eof: ctor_ok=" << whole.ctor_ok << " blocks=" << whole.blocks.size() << " exc=" << whole.exc_type << " " << whole.exc_what);
  size_t header_end = full.blocks.empty() ? file.size() - (g_definite_blocks ? 0 : 1) : full.blocks[0].begin;
  // prefix lengths
  std::set<size_t> ns;
  auto around = [&](size_t x) { for (int d = -3; d <= 3; d++) { long v = (long)x + d; if (v >= 0 && (size_t)v <= file.size()) ns.insert((size_t)v); } };
  around(0); around(file.size()); around(header_end);
  for (auto& b : full.blocks) { around(b.begin); around(b.end); }
  for (size_t m = DBUF; m <= file.size() + 3; m += DBUF) around(m);
  unsigned samples = cs.size >= 80 ? 400 : 60;
  if (file.size() <= 20000 && cs.size >= 80) for (size_t n = 0; n <= file.size(); n++) ns.insert(n);
  else for (unsigned i = 0; i < samples; i++) ns.insert((size_t)c.range(0, file.size()));
  size_t nontriv = 0;
  for (size_t n : ns) {
    std::string desc = "prefix of " + std::to_string(n) + " / " + std::to_string(file.size()) + " bytes (header ends at " + std::to_string(header_end) + ", " + std::to_string(full.blocks.size()) + " blocks)";
    int copy_at = c.range(0, 3) == 0 ? (int)c.range(0, 2) : -1;
    if (copy_at >= 0) { desc += " (reading continued through a copy of the reader made after " + std::to_string(copy_at) + " blocks)"; cs.st.cnt("prefixes_read_through_a_copied_reader"); }
    LibRead r = lib_read(file.substr(0, n), true, copy_at);
    size_t expect_blocks = 0;
    for (auto& b : full.blocks) if (b.end <= n) expect_blocks++;
    if (n < header_end) {
      VF_CHECK(!r.ctor_ok && r.exc_type == "CdnsDecoderEnd", "sig=c05.header_prefix reader on a prefix that ends inside the file header: ctor_ok=" << r.ctor_ok << " exception=" << r.exc_type << " (" << r.exc_what << ") : " << desc);
    } else {
      VF_CHECK(r.ctor_ok, "sig=c05.header_rejected header complete but constructor failed: " << r.exc_type << " " << r.exc_what << " : " << desc);
      VF_CHECK(r.blocks.size() == expect_blocks, "sig=c05.block_count returned " << r.blocks.size() << " blocks, " << expect_blocks << " are wholly contained : " << desc << " exc=" << r.exc_type);
      for (size_t i = 0; i < r.blocks.size(); i++) VF_CHECK(r.blocks[i] == whole.blocks[i], "sig=c05.block_content block " << i << " of the prefix differs from the same block of the full file : " << desc);
      if (n == file.size()) VF_CHECK(r.eof && r.exc_type.empty(), "sig=c05.full_file complete file did not end with eof : " << desc);
      else VF_CHECK(!r.eof && r.exc_type == "CdnsDecoderEnd", "sig=c05.no_end_of_input after the contained blocks the reader " << (r.eof ? "reported a regular eof" : ("failed with " + r.exc_type + " (" + r.exc_what + ")")) << " instead of CdnsDecoderEnd : " << desc);
    }
    bool near_win = (n % DBUF) <= 3 || (n % DBUF) >= DBUF - 3;
    bool near_blk = false;
    for (auto& b : full.blocks) if ((n + 3 >= b.end && n <= b.end + 3)) near_blk = true;
    if (n > 0 && n < file.size() && (near_win || near_blk || full.blocks.size() >= 2)) nontriv++;
    cs.st.cnt("prefixes_read");
    if (near_win && n >= DBUF - 3) cs.st.cnt("prefixes_near_window_multiple");
    if (near_blk) cs.st.cnt("prefixes_near_block_boundary");
  }
  cs.nontrivial = nontriv > 0;
  cs.st.cnt("nontrivial_prefixes", nontriv);
  if (file.size() > DBUF) cs.st.cls("file>window");
  if (amode) cs.st.cls(amode == 1 ? "aligned:file_length" : amode == 2 ? "aligned:block_end" : "aligned:first_block");
  cs.sample = "file " + std::to_string(file.size()) + " B, " + std::to_string(full.blocks.size()) + " blocks, align mode " + std::to_string(amode) + " d=" + std::to_string(dlt) + ", " + std::to_string(ns.size()) + " prefixes";
}

// ---- C08 ---------------------------------------------------------------------------------------
static void c08_rewrite(Case& cs) {
  C08Out o;
  std::string msg = c08_core(cs.c, cs.scratch, cs.size, o, cs.replay);
  cs.sample = o.sample;
  if (o.blocked) { cs.st.cnt("blocked:generated_file_unusable"); return; }
  if (!msg.empty()) throw Failure(msg);
  cs.nontrivial = o.nontrivial;
  const cref::RwStats& rs = o.rs;
  if (rs.widened) cs.st.cls("rw:widened_head"); if (rs.indef_cont) cs.st.cls("rw:indefinite"); if (rs.chunked) cs.st.cls("rw:chunked_string");
  if (rs.permuted) cs.st.cls("rw:permuted_map"); if (rs.inserted) cs.st.cls("rw:unknown_member");
  if (o.dropped_default_index) cs.st.cls("rw:default_block_parameters_index_omitted");
  if (o.deep_spliced) cs.st.cls("rw:unknown_member_nested_1000..300000_deep");
  cs.st.cnt("rewrites_applied", rs.total());
}

// ---- C09 ---------------------------------------------------------------------------------------
static M::Preamble gen_preamble(Chooser& c) {
  M::Preamble p;
  p.major = c.coin() ? 1 : (M::i128)c.range(0, 255);
  p.minor = c.coin() ? 0 : (M::i128)c.range(0, 255);
  if (c.coin()) p.priv.set(c.coin() ? 1 : c.range(0, 255));
  gen::BpOpts bo;
  unsigned n = (unsigned)c.range(1, 8);
  for (unsigned i = 0; i < n; i++) p.bps.push_back(gen::gen_bp(c, bo));
  return p;
}
static void c09_preamble(Case& cs) {
  Chooser& c = cs.c;
  M::Preamble p = gen_preamble(c);
  std::string want = M::dump(p);
  cs.sample = want.substr(0, 700);
  CDNS::FilePreamble fp = adapt::lib_preamble(p);
  // adapter sanity: model -> lib -> model is the identity
  if (M::dump(adapt::model_preamble(fp)) != want) { fprintf(stderr, "harness bug: adapter not an identity\n%s\n%s\n", want.c_str(), M::dump(adapt::model_preamble(fp)).c_str()); abort(); }
  int path = (int)c.range(0, 1);
  std::string bytes;
  std::string fn = cs.scratch + "/c09";
  if (path == 0) {   // through the exporter (one record forces the header)
    {
      CDNS::CdnsExporter ex(fp, fn, CDNS::CborOutputCompression::NO_COMPRESSION);
      CDNS::GenericQueryResponse g; g.asn = std::string("x");
      ex.buffer_qr(g);
      ex.write_block();
    }
    read_file(fn, bytes);
    std::istringstream is(bytes);
    std::string got;
    try { CDNS::CdnsReader rd(is); got = M::dump(adapt::model_preamble(rd.m_file_preamble)); }
    catch (const std::exception& e) { VF_CHECK(false, "sig=c09.reader_exception CdnsReader rejected the written file: " << e.what() << "\n" << want); }
    VF_CHECK(got == want, "sig=c09.lib_roundtrip preamble read back by CdnsReader differs from the written one\nwritten:\n" << want << "read:\n" << got);
    M::FileM fm; cdnsref::Report rep;
    bool wf = cdnsref::interpret(bytes, fm, rep);
    VF_CHECK(wf && rep.ok(), "sig=c09.invalid_output written file does not validate: " << rep.first() << "\n" << want);
    VF_CHECK(M::dump(fm.pre) == want, "sig=c09.ref_mismatch independent parse of the preamble differs from the written value\nwritten:\n" << want << "parsed:\n" << M::dump(fm.pre));
  } else {           // FilePreamble::write / read directly
    int fd = ::open(fn.c_str(), O_WRONLY | O_CREAT | O_TRUNC, 0644);
    size_t ret;
    { CDNS::CdnsEncoder enc(fd, CDNS::CborOutputCompression::NO_COMPRESSION); ret = fp.write(enc); }
    read_file(fn, bytes);
    VF_CHECK(ret == bytes.size(), "sig=c09.write_count FilePreamble::write returned " << ret << " but produced " << bytes.size() << " bytes");
    cref::Node n; std::string err;
    VF_CHECK(cref::parse_all(bytes, n, err), "sig=c09.invalid_output FilePreamble::write output is not one well-formed item: " << err << "\n" << want);
    cdnsref::Report rep; cdnsref::Interp ip(rep); M::Preamble rp;
    ip.preamble(n, rp);
    VF_CHECK(rep.ok() && M::dump(rp) == want, "sig=c09.ref_mismatch independent parse differs: " << rep.first() << "\nwritten:\n" << want << "parsed:\n" << M::dump(rp));
    std::istringstream is(bytes);
    CDNS::CdnsDecoder dec(is);
    CDNS::FilePreamble back;
    // a used object: reading must not keep members of the previous value
    if (c.coin()) { M::Preamble other = gen_preamble(c); back = adapt::lib_preamble(other); cs.st.cls("read_into_used_object"); }
    try { back.read(dec); } catch (const std::exception& e) { VF_CHECK(false, "sig=c09.reader_exception FilePreamble::read rejected its own output: " << e.what() << "\n" << want); }
    std::string got = M::dump(adapt::model_preamble(back));
    VF_CHECK(got == want, "sig=c09.lib_roundtrip FilePreamble::read differs from the written one\nwritten:\n" << want << "read:\n" << got);
  }
  bool nd = p.bps.size() >= 2 || !p.priv.has || p.major != 1 || p.minor != 0;
  for (auto& b : p.bps) if (b.has_cp || b.sp.flags.has || b.sp.sampling.has || !b.sp.opcodes.empty()) nd = true;
  cs.nontrivial = nd;
  if (!p.priv.has) cs.st.cls("private_version_absent");
  for (auto& b : p.bps) { if (b.has_cp) { bool any = b.cp.query_timeout.has || b.cp.skew_timeout.has || b.cp.snaplen.has || b.cp.promisc.has || !b.cp.interfaces.empty() || !b.cp.server_address.empty() || !b.cp.vlan_ids.empty() || b.cp.filter.has || b.cp.generator_id.has || b.cp.host_id.has; cs.st.cls(any ? "collection_parameters_present" : "collection_parameters_empty"); break; } }
  cs.st.cls(path == 0 ? "via_exporter" : "via_FilePreamble_write");
  cs.st.cls("sets:" + std::to_string(p.bps.size()));
}

int main(int argc, char** argv) {
  Registry r;
  r.add("c05_file", c05_file);
  r.add("c08_rewrite", c08_rewrite);
  r.add("c09_preamble", c09_preamble);
  return harness_main(argc, argv, r);
}
