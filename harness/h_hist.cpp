// hist harness: model-based API histories on CdnsExporter / CdnsBlock.
// Serves C01 C02 C04 C10 C12 C13 and the block-level parts of C11 and C17.  One generator, one
// reference exporter model (written from the documentation and the property statements), several
// oracle groups; each registered property enables the oracle groups it decides.
#include <fcntl.h>
#include <sys/stat.h>
#include <sstream>

#include "cdns.h"

#include "cdns_ref.hpp"
#include "decomp.hpp"
#include "gen.hpp"
#include "harness.hpp"
#include "lib_adapter.hpp"
#include "model.hpp"

using namespace vf;
namespace M = model;
using M::Fields;

static const char* EXT[] = {"", ".gz", ".xz"};

enum Oracle { O_C01 = 1, O_C02 = 2, O_C04 = 4, O_C10 = 8, O_C11 = 16, O_C12 = 32, O_C13 = 64, O_C17 = 128, O_C14 = 256, O_C09 = 512 };

struct Profile {
  const char* name;
  unsigned oracles;
  // op weights
  unsigned w_qr = 10, w_aec = 3, w_mm = 3, w_write = 2, w_ext = 0, w_rotate = 0, w_addbp = 0, w_setactive = 1, w_counters = 1;
  unsigned min_sets = 1, max_sets = 3;
  bool hint_modes = true;
  bool any_tps = true;
  bool empty_structs = true;      // present-but-empty optional structures
  bool small_blocks = false;      // prefer tiny max_block_items
  unsigned pres_fixed = 0;        // 0 = per-case choice, else fixed presence (out of 8)
  unsigned ops_per_size = 1;
  bool big_strings = false;
  bool force_compression = false;
  unsigned w_retune = 0;          // change the active set's tick rate through get_active_block_parameters_ref() + rotate_output(export=true)
  bool ext_generic_only = false;  // application-built blocks use the generic add_* overloads only (hints apply)
  bool align_mode = false;        // exhaustive alignment sweep: a scripted history whose first record carries a string of every length 0..2250
  bool enum_mode = false;         // exhaustive small-scope enumeration (C12): fixed tiny alphabet, no other choices
};

// ---- reference exporter model ----------------------------------------------------------------
struct OutM {
  int kind = 0;          // 0 file name, 1 descriptor
  int comp = 0;
  std::string path;      // final path of the output
  std::string part;      // .part path for named outputs
  std::vector<M::BlockM> blocks;
  size_t nsets_header = 0;
  std::vector<M::BlockP> sets_header;   // parameter sets as they were when the header of this output was written
  uint64_t ret_sum = 0;
  bool closed_by_destroy = false;
  bool closed = false;
  bool snap_taken = false;
  std::string snapshot;  // raw file content right after the rotation returned
};
struct RefExporter {
  std::vector<M::BlockP> sets;
  uint64_t active = 0;
  // block being filled
  uint64_t cur_bp = 0;
  std::vector<Fields> qrs, mms;
  M::AecCounts aecs;
  M::StatsM stats;
  std::vector<OutM> outs;

  const M::BlockP& cur() const { return sets[cur_bp]; }
  uint64_t maxi() const { return (uint64_t)cur().sp.max_items; }
  size_t items() const { return qrs.size() + aecs.size() + mms.size(); }
  bool full() const {
    uint64_t m = maxi() == 0 ? 1 : maxi();   // "a maximum of 0 acting like 1"
    return qrs.size() >= m || aecs.size() >= m || mms.size() >= m;
  }
  void rearm() { qrs.clear(); mms.clear(); aecs.clear(); stats = M::StatsM(); cur_bp = active; }
  // ends the block being filled; returns true when a block was written
  bool write_block() {
    bool wrote = false;
    if (items() > 0) {
      M::BlockM b;
      b.bp_index = cur_bp; b.has_bp_index = true;
      b.qrs = qrs; b.mms = mms; b.aecs = aecs; b.stats = stats;
      OutM& o = outs.back();
      if (o.blocks.empty()) { o.nsets_header = sets.size(); o.sets_header = sets; }
      o.blocks.push_back(b);
      wrote = true;
    }
    rearm();
    return wrote;
  }
};

// comparison of one block (expected from the model, actual from a reader)
static std::string cmp_block(const M::BlockM& e, const M::BlockM& a, bool cmp_stats = true) {
  std::ostringstream os;
  if (e.bp_index != a.bp_index) os << " block-parameters-index " << e.bp_index << " vs " << a.bp_index << ";";
  if (e.qrs.size() != a.qrs.size()) os << " q/r count " << e.qrs.size() << " vs " << a.qrs.size() << ";";
  else for (size_t i = 0; i < e.qrs.size(); i++) { std::string d = M::diff_fields(M::normalise(e.qrs[i]), M::normalise(a.qrs[i]), M::QF_NAME); if (!d.empty()) { os << " q/r[" << i << "]" << d << ";"; break; } }
  if (e.mms.size() != a.mms.size()) os << " mm count " << e.mms.size() << " vs " << a.mms.size() << ";";
  else for (size_t i = 0; i < e.mms.size(); i++) { std::string d = M::diff_fields(e.mms[i], a.mms[i], M::MF_NAME); if (!d.empty()) { os << " mm[" << i << "]" << d << ";"; break; } }
  if (e.aecs != a.aecs) {
    os << " address events differ:";
    for (auto& kv : e.aecs) { auto it = a.aecs.find(kv.first); if (it == a.aecs.end()) os << " [" << kv.first << " x" << M::i128s(kv.second) << " vs ABSENT]"; else if (it->second != kv.second) os << " [" << kv.first << " x" << M::i128s(kv.second) << " vs x" << M::i128s(it->second) << "]"; }
    for (auto& kv : a.aecs) if (!e.aecs.count(kv.first)) os << " [ABSENT vs " << kv.first << " x" << M::i128s(kv.second) << "]";
    os << ";";
  }
  if (cmp_stats && !(e.stats == a.stats)) os << " statistics " << e.stats.show() << " vs " << a.stats.show() << ";";
  return os.str();
}

struct Ctx {
  Case& cs;
  const Profile& pf;
  unsigned failures_other = 0;
  Ctx(Case& c, const Profile& p) : cs(c), pf(p) {}
  // raise a failure of an oracle group if the profile decides that group, otherwise count it
  void fail(unsigned group, const std::string& sig, const std::string& msg) {
    if (pf.oracles & group) {
      if (is_known(cs.st, sig)) return;
      throw Failure("sig=" + sig + " " + msg);
    }
    failures_other++;
    cs.st.cnt("other_oracle:" + sig);
  }
};

static std::string describe_sets(const std::vector<M::BlockP>& sets) {
  std::ostringstream os;
  for (size_t i = 0; i < sets.size(); i++)
    os << "set" << i << "{tps=" << M::i128s(sets[i].sp.tps) << " max=" << M::i128s(sets[i].sp.max_items) << " hints=" << sets[i].sp.hints.qr << "/" << sets[i].sp.hints.sig
       << "/" << sets[i].sp.hints.rr << "/" << sets[i].sp.hints.other << "} ";
  return os.str();
}

// Builds an external block through the public CdnsBlock API; returns its model.
// The block lives in `holder`; half-way through it may be relocated (copy / move construction or assignment), as an
// application that keeps blocks in containers would do: a block must keep behaving like the block it was (C19, C04).
static M::BlockM build_external(Chooser& c, std::unique_ptr<CDNS::CdnsBlock>& holder, const M::BlockP& bp, uint64_t idx, const gen::Pools& pools, const gen::TimeCtx& tc,
                                const gen::RecOpts& ro, bool empty_structs, bool generic_only, Stats& st) {
  M::BlockM m;
  m.bp_index = idx; m.has_bp_index = true;
  uint64_t tps = (uint64_t)bp.sp.tps;
  unsigned n = (unsigned)c.range(1, 5);
  unsigned relocate_at = c.range(0, 2) == 0 ? (unsigned)c.range(0, n - 1) : n + 1;
  for (unsigned i = 0; i < n; i++) {
    if (i == relocate_at) {
      uint64_t how = c.range(0, 3);
      std::unique_ptr<CDNS::CdnsBlock> nb;
      if (how == 0) nb.reset(new CDNS::CdnsBlock(*holder));
      else if (how == 1) nb.reset(new CDNS::CdnsBlock(std::move(*holder)));
      else if (how == 2) { nb.reset(new CDNS::CdnsBlock()); *nb = *holder; }
      else { nb.reset(new CDNS::CdnsBlock()); *nb = std::move(*holder); }
      holder = std::move(nb);   // the original is destroyed
      st.cls(how == 0 ? "ext:relocated_copy_ctor" : how == 1 ? "ext:relocated_move_ctor" : how == 2 ? "ext:relocated_copy_assign" : "ext:relocated_move_assign");
    }
    CDNS::CdnsBlock& blk = *holder;
    uint64_t k = generic_only ? c.pick<uint64_t>({0, 0, 2, 3}) : c.range(0, 4);
    if (k == 0) {   // generic Q/R (hints of the block apply)
      Fields f = gen::gen_qr(c, pools, tc, tps, ro);
      M::StatsM s = gen::gen_stats(c, empty_structs);
      blk.add_question_response_record(adapt::generic_qr(f), adapt::lib_stats(s));
      Fields p = M::project_qr(f, bp.sp.hints);
      if (!p.empty()) m.qrs.push_back(p);
      if (s.present) m.stats = s;
    } else if (k == 1) {  // index-level Q/R: indices come from this block's own add_* calls
      CDNS::QueryResponse q;
      Fields f;
      if (c.coin()) { std::string ip = gen::gen_ip(c, pools); q.client_address_index = blk.add_ip_address(ip); f[M::Q_CLIENT_IP] = M::Val::Bytes(ip); }
      if (c.coin()) { uint16_t p = (uint16_t)c.uint_bits(16); q.client_port = p; f[M::Q_CLIENT_PORT] = M::Val::Int(p); }
      if (c.coin()) { std::string nm = gen::gen_name(c, pools); q.query_name_index = blk.add_name_rdata(nm); f[M::Q_QNAME] = M::Val::Bytes(nm); }
      if (c.coin()) { M::Ts t = gen::gen_ts(c, tc, tps); q.time_offset = adapt::ts(t); f[M::Q_TS] = M::Val::Time(t); }
      if (c.coin()) {
        CDNS::QueryResponseSignature sig;
        bool any = false;
        if (c.coin()) { std::string ip = gen::gen_ip(c, pools); sig.server_address_index = blk.add_ip_address(ip); f[M::Q_SERVER_IP] = M::Val::Bytes(ip); any = true; }
        if (c.coin()) { uint16_t p = (uint16_t)c.uint_bits(16); sig.server_port = p; f[M::Q_SERVER_PORT] = M::Val::Int(p); any = true; }
        if (c.coin()) { CDNS::ClassType ct; ct.type = (uint16_t)c.uint_bits(16); ct.class_ = 1; sig.query_classtype_index = blk.add_classtype(ct); f[M::Q_CLASSTYPE] = M::Val::Ct(ct.type, 1); any = true; }
        if (any || empty_structs) { q.qr_signature_index = blk.add_qr_signature(sig); if (!any) st.cls("ext:empty_signature"); }
      }
      if (c.coin()) {
        CDNS::ResponseProcessingData rpd;
        bool any = false;
        if (c.coin()) { std::string nm = gen::gen_name(c, pools); rpd.bailiwick_index = blk.add_name_rdata(nm); f[M::Q_BAILIWICK] = M::Val::Bytes(nm); any = true; }
        if (c.coin()) { rpd.processing_flags = static_cast<CDNS::ResponseProcessingFlagsMask>(1); f[M::Q_PROCFLAGS] = M::Val::Int(1); any = true; }
        if (any || empty_structs) { q.response_processing_data = rpd; if (!any) st.cls("ext:empty_rpd"); }
      }
      if (c.coin()) {
        CDNS::QueryResponseExtended qe;
        bool any = false;
        if (c.coin()) {
          std::vector<M::RRec> rr; rr.push_back(gen::gen_rr(c, pools, ro));
          std::vector<CDNS::index_t> l;
          CDNS::RR r; r.name_index = blk.add_name_rdata(rr[0].name);
          CDNS::ClassType ct; ct.type = (uint16_t)rr[0].type; ct.class_ = (uint16_t)rr[0].cls; r.classtype_index = blk.add_classtype(ct);
          if (rr[0].has_ttl) r.ttl = (uint32_t)rr[0].ttl;
          if (rr[0].has_rdata) r.rdata_index = blk.add_name_rdata(rr[0].rdata);
          l.push_back(blk.add_rr(r));
          qe.answer_index = blk.add_rr_list(l);
          f[M::Q_QAN] = M::Val::Rrs(rr);
          any = true;
        }
        if (c.coin()) {   // an empty index list stored in the table: reads back as an empty (== absent) section
          if (empty_structs) { std::vector<CDNS::index_t> l; qe.authority_index = blk.add_rr_list(l); any = true; st.cls("ext:empty_index_list"); }
        }
        if (any || empty_structs) { q.query_extended = qe; if (!any) st.cls("ext:empty_qre"); }
      }
      std::size_t members = !!q.time_offset + !!q.client_address_index + !!q.client_port + !!q.qr_signature_index + !!q.query_name_index + !!q.response_processing_data + !!q.query_extended;
      blk.add_question_response_record(q);
      if (members > 0) m.qrs.push_back(f);
    } else if (k == 2) {
      M::AecKey key = gen::gen_aec(c, pools);
      blk.add_address_event_count(adapt::generic_aec(key));
      if ((bp.sp.hints.other >> M::OTHER_AEC_BIT) & 1) m.aecs[key.key()] += 1;
    } else if (k == 3) {
      Fields f = gen::gen_mm(c, pools, tc, tps, ro);
      blk.add_malformed_message(adapt::generic_mm(f));
      if (((bp.sp.hints.other >> M::OTHER_MM_BIT) & 1) && !f.empty()) m.mms.push_back(f);
    } else {  // index-level malformed message, possibly with empty message data
      CDNS::MalformedMessage mm;
      Fields f;
      if (c.coin()) { uint16_t p = (uint16_t)c.uint_bits(16); mm.client_port = p; f[M::M_CLIENT_PORT] = M::Val::Int(p); }
      CDNS::MalformedMessageData d;
      bool any = false;
      if (c.coin()) { std::string pl = c.bytes(40); d.mm_payload = pl; f[M::M_PAYLOAD] = M::Val::Bytes(pl); any = true; }
      if (any || (empty_structs && c.coin())) { mm.message_data_index = blk.add_malformed_message_data(d); if (!any) st.cls("ext:empty_mmd"); }
      std::size_t members = !!mm.client_port + !!mm.message_data_index;
      blk.add_malformed_message(mm);   // index-level adds are not filtered by hints
      if (members > 0) m.mms.push_back(f);
    }
  }
  return m;
}

static void hist_case(Case& cs, const Profile& pf) {
  Chooser& c = cs.c;
  Ctx cx(cs, pf);
  std::ostringstream trace;   // rendering of the history (sample / failure report)

  // ---- configuration
  gen::Pools pools;
  gen::TimeCtx tc;
  gen::RecOpts ro;
  const bool scripted = pf.enum_mode || pf.align_mode;
  if (!scripted) { pools = gen::make_pools(c); tc = gen::gen_timectx(c); }
  ro.pres = scripted ? 4 : pf.pres_fixed ? pf.pres_fixed : (unsigned)c.pick<int>({4, 1, 7, 2, 6, 8});
  // C04: mostly well-filled records (a hint only matters for a field that has a value), but also sparse ones: whether a record is stored
  // at all can hinge on a single enabled field
  if (!scripted && std::string(pf.name) == "c04") ro.pres = (unsigned)c.pick<int>({7, 7, 7, 3, 1, 5});
  ro.big = pf.big_strings ? (pf.ops_per_size >= 10 ? 70000 : 5000) : 300;
  gen::BpOpts bo;
  bo.full_hint_modes = pf.hint_modes;
  bo.any_tps = pf.any_tps;
  bo.allow_empty_cp = pf.empty_structs;
  if (pf.small_blocks) bo.max_items = {0, 1, 2, 3, 5, 1, 2, 3, 0x100000001ull, 0x100000002ull, 0x1000000000003ull};   // a few limits that only differ from 1/2/3 above bit 31
  RefExporter ref;
  int comp, kind;
  unsigned nops;
  size_t align_len = 0; int align_variant = 0;
  if (pf.align_mode) {
    align_len = (size_t)c.range(0, 2250);     // first choice = sharding dimension
    align_variant = (int)c.range(0, 7);       // which member ends the first record
    M::BlockP b0;
    b0.sp.hints.qr = gen::QR_ALL; b0.sp.hints.sig = gen::SIG_ALL; b0.sp.hints.rr = 3; b0.sp.hints.other = 3;
    b0.sp.max_items = 10000;
    ref.sets.push_back(b0);
    comp = 0; kind = 0; nops = 5;
  } else if (pf.enum_mode) {
    // configuration = first choice (sharding dimension): max_block_items in {0,1,2,3} x AEC hint x MM hint
    uint64_t cfg = c.range(0, 15);
    M::BlockP b0;
    b0.sp.hints.qr = gen::QR_ALL; b0.sp.hints.sig = gen::SIG_ALL; b0.sp.hints.rr = 3;
    b0.sp.hints.other = (((cfg >> 2) & 1) ? (1u << M::OTHER_AEC_BIT) : 0) | (((cfg >> 3) & 1) ? (1u << M::OTHER_MM_BIT) : 0);
    b0.sp.max_items = cfg & 3;
    M::BlockP b1 = b0;
    b1.sp.max_items = (cfg & 3) == 2 ? 3 : 2;
    ref.sets.push_back(b0); ref.sets.push_back(b1);
    comp = 0; kind = 0; nops = cs.size;
  } else {
    unsigned nsets = (unsigned)c.range(pf.min_sets, pf.max_sets);
    for (unsigned i = 0; i < nsets; i++) ref.sets.push_back(gen::gen_bp(c, bo));
    comp = pf.force_compression ? 1 + (int)c.range(0, 1) : (int)c.range(0, 2);
    kind = (int)c.range(0, 1);
    nops = (unsigned)c.range(1, 4 + cs.size * pf.ops_per_size);
  }
  trace << "comp=" << comp << " kind=" << (kind ? "fd" : "name") << " pres=" << ro.pres << "/8 " << describe_sets(ref.sets) << "\n";

  M::Preamble mpre;
  mpre.bps = ref.sets;
  if (!scripted && c.coin()) mpre.priv.set(c.range(0, 255)); // private version present / absent
  mpre.major = 1; mpre.minor = 0;
  CDNS::FilePreamble fp = adapt::lib_preamble(mpre);

  unsigned outno = 0;
  std::vector<int> keep_fds;
  auto new_out = [&](OutM& o) {
    o.kind = kind; o.comp = comp;
    std::string base = cs.scratch + (kind ? "/f" : "/o") + std::to_string(outno++);
    if (kind == 0) { o.path = base + EXT[comp]; o.part = o.path + ".part"; }
    else o.path = base;
    return base;
  };
  auto open_fd = [&](const std::string& path) {
    int fd = ::open(path.c_str(), O_WRONLY | O_CREAT | O_TRUNC, 0644);
    if (fd < 0) { perror("open"); abort(); }
    return fd;
  };

  ref.outs.emplace_back();
  std::string base0 = new_out(ref.outs.back());
  std::unique_ptr<CDNS::CdnsExporter> ex;
  if (kind == 0) ex.reset(new CDNS::CdnsExporter(fp, base0, (CDNS::CborOutputCompression)comp));
  else ex.reset(new CDNS::CdnsExporter(fp, open_fd(base0), (CDNS::CborOutputCompression)comp));
  ref.active = 0; ref.cur_bp = 0;

  // class flags for the non-triviality rules
  bool had_rotation_with_blocks = false, had_nonexport_rotation_nonempty = false, had_consec_rot = false, last_was_rot = false;
  bool had_switch_flush = false, had_buffer_flush = false, had_ext = false, had_empty_struct = false, had_big_block = false;
  unsigned kinds_used = 0, n_records = 0, n_boundaryish = 0, n_rrlists = 0;
  bool pending_switch = false;

  auto check_counters = [&](const char* after) {
    size_t q = ex->get_block_qr_count(), a = ex->get_block_aec_count(), m = ex->get_block_mm_count(), t = ex->get_block_item_count(), w = ex->get_blocks_written_count();
    if (q != ref.qrs.size() || a != ref.aecs.size() || m != ref.mms.size() || t != ref.items() || w != ref.outs.back().blocks.size())
      cx.fail(O_C12, "c12.counters", std::string("after ") + after + ": counters qr/aec/mm/items/blocks_written = " + std::to_string(q) + "/" + std::to_string(a) + "/" + std::to_string(m) + "/" +
                                         std::to_string(t) + "/" + std::to_string(w) + ", reference model " + std::to_string(ref.qrs.size()) + "/" + std::to_string(ref.aecs.size()) + "/" +
                                         std::to_string(ref.mms.size()) + "/" + std::to_string(ref.items()) + "/" + std::to_string(ref.outs.back().blocks.size()) + "\n" + trace.str());
    if (ex->get_active_block_parameters() != ref.active)
      cx.fail(O_C12, "c12.active_index", std::string("after ") + after + ": active block parameters " + std::to_string(ex->get_active_block_parameters()) + " vs model " + std::to_string(ref.active));
  };
  auto after_buffer = [&](const char* what, size_t ret) {
    bool wrote = false;
    if (ref.full()) {
      bool sw = ref.cur_bp != ref.active || pending_switch;
      wrote = ref.write_block();
      if (wrote) { had_buffer_flush = true; if (sw) had_switch_flush = true; pending_switch = false; }
    }
    ref.outs.back().ret_sum += ret;
    if ((ret != 0) != wrote)
      cx.fail(O_C12, "c12.flush_return", std::string(what) + " returned " + std::to_string(ret) + " but the reference model " + (wrote ? "wrote" : "did not write") + " a block (max_block_items=" +
                                             M::i128s(ref.sets[ref.outs.back().blocks.empty() ? ref.cur_bp : ref.outs.back().blocks.back().bp_index].sp.max_items) + ")\n" + trace.str());
    trace << " -> " << ret << (wrote ? " [block]" : "") << "\n";
    check_counters(what);
  };
  auto snapshot_closed = [&](OutM& o) {
    o.closed = true;
    std::string raw;
    bool okr = read_file(o.path, raw);
    if (o.kind == 0) {
      struct stat sb;
      if (!okr) cx.fail(O_C13, "c13.final_name_missing", "after rotate_output the closed output " + o.path + " does not exist under its final name\n" + trace.str());
      if (::stat(o.part.c_str(), &sb) == 0) cx.fail(O_C13, "c13.part_left", "after rotate_output " + o.part + " still exists\n" + trace.str());
    }
    o.snapshot = raw; o.snap_taken = okr;
  };

  // ---- the history
  for (unsigned step = 0; step < nops; step++) {
    unsigned W[] = {pf.w_qr, pf.w_aec, pf.w_mm, pf.w_write, pf.w_ext, pf.w_rotate, pf.w_addbp, pf.w_setactive, pf.w_counters, pf.w_retune};
    unsigned tot = 0; for (unsigned w : W) tot += w;
    int op = 0;
    int esym = -1;   // enumeration alphabet: 0 qr storable, 1 qr unstorable, 2 aec key 1, 3 aec key 2, 4 mm, 5 write_block, 6 set_active(other), 7 counters
    if (pf.align_mode) {
      static const int SCRIPT[5] = {0, 3, 5, 0, 3};   // buffer_qr, write_block, rotate_output(export=false), buffer_qr, write_block
      op = SCRIPT[step];
    } else if (pf.enum_mode) {
      esym = (int)c.range(0, 7);
      static const int OPMAP[8] = {0, 0, 1, 1, 2, 3, 7, 8};
      op = OPMAP[esym];
    } else {
      uint64_t r = c.range(0, tot - 1);
      while (r >= W[op]) { r -= W[op]; op++; }
    }
    uint64_t tps = (uint64_t)ref.cur().sp.tps;
    const M::Hints& h = ref.cur().sp.hints;
    bool rot_now = false;
    switch (op) {
      case 0: {  // buffer_qr
        Fields f;
        if (pf.align_mode) {
          f[M::Q_TXID] = M::Val::Int(0x1234 + step);
          if (step == 0) {
            std::string filler(align_len, 'q');
            for (size_t i = 0; i < filler.size(); i++) filler[i] = (char)('a' + (i * 11) % 26);
            switch (align_variant) {
              case 0: f[M::Q_QNAME] = M::Val::Bytes(filler); f[M::Q_ASN] = M::Val::Text("0123456789"); break;            // text string last
              case 1: f[M::Q_QNAME] = M::Val::Bytes("\x03www\x00"); f[M::Q_ASN] = M::Val::Text(filler); break;          // long text last
              case 2: f[M::Q_QNAME] = M::Val::Bytes(filler); f[M::Q_RTT] = M::Val::Int((M::i128)INT64_MIN); break;         // 9-byte integer last
              case 3: f[M::Q_QNAME] = M::Val::Bytes(filler); f[M::Q_HOPLIMIT] = M::Val::Int(24); f[M::Q_QSIZE] = M::Val::Int(24); f[M::Q_RSIZE] = M::Val::Int(0x100000000ll); break;
              case 4: f[M::Q_QNAME] = M::Val::Bytes(filler); f[M::Q_CLIENT_PORT] = M::Val::Int(65535); f[M::Q_DELAY] = M::Val::Int(-25); break;
              // the filler sits in the client address (key 1): the record - and with it the block - ends with a narrow integer in its longest form
              case 6: f[M::Q_CLIENT_IP] = M::Val::Bytes(filler); break;                                                  // transaction id (uint16, 3 bytes) last
              case 7: f[M::Q_CLIENT_IP] = M::Val::Bytes(filler); f[M::Q_HOPLIMIT] = M::Val::Int(200); break;             // hop limit (uint8, 2 bytes) last
              default: f[M::Q_QNAME] = M::Val::Bytes(filler); f[M::Q_CC] = M::Val::Text(std::string(24, 'c')); break;      // 24-byte text last
            }
          }
        } else if (pf.enum_mode) { if (esym == 0) f[M::Q_TXID] = M::Val::Int(step + 1); } else f = gen::gen_qr(c, pools, tc, tps, ro);
        Fields p = M::project_qr(f, h);
        bool storable = !p.empty();
        if (!storable && ref.maxi() == 0 && ref.active != ref.cur_bp) { cs.st.cnt("excluded:max0_unstorable_rearm"); break; }
        M::StatsM s;
        if (scripted) {} else if (storable || ref.maxi() != 0) s = gen::gen_stats(c, pf.empty_structs); else cs.st.cnt("excluded:stats_on_unstorable_max0");
        if (s.present && s.f.empty()) had_empty_struct = true;
        trace << "buffer_qr " << M::show_fields(f, M::QF_NAME).substr(0, 300) << (s.present ? " stats=" + s.show() : "") << (storable ? "" : " [unstorable]");
        size_t ret = ex->buffer_qr(adapt::generic_qr(f), adapt::lib_stats(s));
        if (storable) { ref.qrs.push_back(p); kinds_used |= 1; n_records++; }
        if (s.present) ref.stats = s;
        for (auto& kv : f) { if (kv.second.kind == M::V_RRS && !kv.second.rr.empty()) n_rrlists++; if (kv.second.kind == M::V_INT && (kv.second.i < 0 || kv.second.i >= 65536)) n_boundaryish++; }
        after_buffer("buffer_qr", ret);
        break;
      }
      case 1: {  // buffer_aec
        M::AecKey k;
        if (pf.enum_mode) { k.type = esym == 2 ? 1 : 2; k.ip = std::string("\x0a\x00\x00\x01", 4); } else k = gen::gen_aec(c, pools);
        bool enabled = (h.other >> M::OTHER_AEC_BIT) & 1;
        M::StatsM s;
        if (enabled && !pf.enum_mode) s = gen::gen_stats(c, pf.empty_structs);   // precondition 4: no statistics on a disabled record kind
        if (s.present && s.f.empty()) had_empty_struct = true;
        trace << "buffer_aec " << k.key() << (s.present ? " stats=" + s.show() : "") << (enabled ? "" : " [disabled]");
        size_t ret = ex->buffer_aec(adapt::generic_aec(k), adapt::lib_stats(s));
        if (enabled) { ref.aecs[k.key()] += 1; kinds_used |= 2; n_records++; if (s.present) ref.stats = s; after_buffer("buffer_aec", ret); }
        else { ref.outs.back().ret_sum += ret; if (ret != 0) cx.fail(O_C12, "c12.flush_return", "buffer_aec with address events disabled returned " + std::to_string(ret)); trace << " -> " << ret << "\n"; check_counters("buffer_aec(disabled)"); }
        break;
      }
      case 2: {  // buffer_mm
        Fields f;
        if (pf.enum_mode) f[M::M_CLIENT_PORT] = M::Val::Int(step + 1); else f = gen::gen_mm(c, pools, tc, tps, ro);
        bool enabled = (h.other >> M::OTHER_MM_BIT) & 1;
        bool storable = enabled && !f.empty();
        if (enabled && !storable && ref.maxi() == 0 && ref.active != ref.cur_bp) { cs.st.cnt("excluded:max0_unstorable_rearm"); break; }
        M::StatsM s;
        if (!pf.enum_mode && enabled && (storable || ref.maxi() != 0)) s = gen::gen_stats(c, pf.empty_structs);
        if (s.present && s.f.empty()) had_empty_struct = true;
        trace << "buffer_mm " << M::show_fields(f, M::MF_NAME).substr(0, 200) << (s.present ? " stats=" + s.show() : "") << (enabled ? "" : " [disabled]");
        size_t ret = ex->buffer_mm(adapt::generic_mm(f), adapt::lib_stats(s));
        if (enabled) { if (storable) { ref.mms.push_back(f); kinds_used |= 4; n_records++; } if (s.present) ref.stats = s; after_buffer("buffer_mm", ret); }
        else { ref.outs.back().ret_sum += ret; if (ret != 0) cx.fail(O_C12, "c12.flush_return", "buffer_mm with malformed messages disabled returned " + std::to_string(ret)); trace << " -> " << ret << "\n"; check_counters("buffer_mm(disabled)"); }
        break;
      }
      case 3: {  // write_block()
        trace << "write_block()";
        size_t ret = ex->write_block();
        bool sw = ref.cur_bp != ref.active;
        bool wrote = ref.write_block();
        (void)sw;
        ref.outs.back().ret_sum += ret;
        pending_switch = false;
        if ((ret != 0) != wrote) cx.fail(O_C12, "c12.flush_return", "write_block() returned " + std::to_string(ret) + " but the model " + (wrote ? "wrote" : "did not write") + " a block\n" + trace.str());
        trace << " -> " << ret << (wrote ? " [block]" : "") << "\n";
        check_counters("write_block");
        break;
      }
      case 4: {  // write_block(external block)
        OutM& o = ref.outs.back();
        size_t limit = o.blocks.empty() ? ref.sets.size() : o.nsets_header;  // precondition 2: the index must exist in this output's preamble
        uint64_t idx = c.range(0, limit - 1);
        CDNS::BlockParameters lbp = adapt::lib_bp(ref.sets[idx]);
        std::unique_ptr<CDNS::CdnsBlock> holder(new CDNS::CdnsBlock(lbp, (CDNS::index_t)idx));
        bool generic_only = pf.ext_generic_only || c.coin();
        M::BlockM mb = build_external(c, holder, ref.sets[idx], idx, pools, tc, ro, pf.empty_structs, generic_only, cs.st);
        CDNS::CdnsBlock& blk = *holder;
        mb.begin = 1;   // model side marker: built by the application
        mb.external = !generic_only;   // hint oracles apply to blocks filled through the generic overloads only
        trace << "write_block(external bp=" << idx << " qr=" << mb.qrs.size() << " aec=" << mb.aecs.size() << " mm=" << mb.mms.size() << ")";
        size_t ret = ex->write_block(blk);
        bool wrote = mb.qrs.size() + mb.aecs.size() + mb.mms.size() > 0;
        if (wrote) { if (o.blocks.empty()) { o.nsets_header = ref.sets.size(); o.sets_header = ref.sets; } o.blocks.push_back(mb); had_ext = true; }
        o.ret_sum += ret;
        if ((ret != 0) != wrote) cx.fail(O_C12, "c12.flush_return", "write_block(external) returned " + std::to_string(ret) + " but the block has " + std::to_string(mb.qrs.size() + mb.aecs.size() + mb.mms.size()) + " items\n" + trace.str());
        trace << " -> " << ret << "\n";
        check_counters("write_block(external)");
        break;
      }
      case 5: {  // rotate_output
        bool exp = pf.align_mode ? false : c.coin();
        OutM& old = ref.outs.back();
        size_t buffered = ref.items();
        trace << "rotate_output(export=" << exp << ")";
        OutM nw;
        std::string base = new_out(nw);
        size_t ret;
        if (kind == 0) ret = ex->rotate_output(base, exp); else ret = ex->rotate_output(open_fd(base), exp);
        bool wrote = false;
        if (exp) wrote = ref.write_block();
        pending_switch = exp ? false : pending_switch;
        old.ret_sum += ret;
        bool expect_nonzero = wrote || !old.blocks.empty();
        if ((ret != 0) != expect_nonzero) cx.fail(O_C12, "c12.flush_return", "rotate_output returned " + std::to_string(ret) + " but the model expects " + (expect_nonzero ? "non-zero" : "0") + "\n" + trace.str());
        trace << " -> " << ret << "\n";
        if (!old.blocks.empty()) had_rotation_with_blocks = true;
        if (!exp && buffered > 0) had_nonexport_rotation_nonempty = true;
        if (last_was_rot) had_consec_rot = true;
        rot_now = true;
        ref.outs.push_back(nw);
        snapshot_closed(ref.outs[ref.outs.size() - 2]);
        check_counters("rotate_output");
        break;
      }
      case 6: {  // add_block_parameters
        if (ref.sets.size() >= 8) break;
        M::BlockP b = gen::gen_bp(c, bo);
        if (c.range(0, 2) == 0) {
          // a set that differs from an existing one in a single member (or not at all): it is a set of its own all the same
          b = ref.sets[c.range(0, ref.sets.size() - 1)];
          switch (c.range(0, 7)) {
            case 0: b.sp.hints.other ^= (uint64_t)c.range(1, 3); break;
            case 1: b.sp.hints.rr ^= (uint64_t)c.range(1, 3); break;
            case 2: b.sp.hints.qr ^= 1ull << c.range(0, 17); break;
            case 3: b.sp.hints.sig ^= 1ull << c.range(0, 16); break;
            case 4: b.sp.max_items = pf.small_blocks ? c.pick<uint64_t>({1, 2, 3, 5}) : c.pick<uint64_t>({7, 40, 10000}); break;
            case 5: b.sp.opcodes.push_back(c.range(0, 255)); break;
            case 6: if (bo.any_tps) b.sp.tps = c.pick<uint64_t>({1000ull, 1000000ull, 1000000000ull}); break;
            default: break;
          }
          cs.st.cls("added_set_derived_from_an_existing_one");
        }
        CDNS::BlockParameters lb = adapt::lib_bp(b);
        CDNS::index_t idx = ex->add_block_parameters(lb);
        trace << "add_block_parameters -> " << idx << "\n";
        if (idx != ref.sets.size()) cx.fail(O_C12 | O_C04 | O_C09 | O_C13, "c12.add_bp_index", "add_block_parameters returned " + std::to_string(idx) + " expected " + std::to_string(ref.sets.size()));
        ref.sets.push_back(b);
        break;
      }
      case 7: {  // set_active_block_parameters (valid or out of range)
        OutM& o = ref.outs.back();
        size_t limit = o.blocks.empty() ? ref.sets.size() : o.nsets_header;   // precondition 1
        bool bad = pf.enum_mode ? false : c.range(0, 7) == 7;
        uint64_t idx = pf.enum_mode ? (limit >= 2 ? 1 - ref.active : 0) : bad ? ref.sets.size() + c.range(0, 2) : c.range(0, limit - 1);
        bool ok = ex->set_active_block_parameters((CDNS::index_t)idx);
        trace << "set_active_block_parameters(" << idx << ") -> " << ok << "\n";
        if (ok != !bad) cx.fail(O_C12, "c12.set_active_result", "set_active_block_parameters(" + std::to_string(idx) + ") returned " + std::to_string(ok) + " with " + std::to_string(ref.sets.size()) + " sets");
        if (!bad) { if (idx != ref.active) pending_switch = true; ref.active = idx; }
        check_counters("set_active_block_parameters");
        break;
      }
      case 9: {  // retune: another tick rate for the active set, effective from the next output on
        // valid use: mutate through the reference, then rotate with export, so that the buffered block (old rate) still goes to
        // the old output; only when the buffered block uses the active set (otherwise nothing re-arms it) - generator duty
        if (ref.cur_bp != ref.active) { cs.st.cnt("excluded:retune_with_pending_switch"); break; }
        // ... and only when the header of the current output is already written (it states the old rate of the buffered block)
        if (ref.outs.back().blocks.empty()) { cs.st.cnt("excluded:retune_before_first_block"); break; }
        uint64_t ntps = c.pick<uint64_t>({1000ull, 1000000ull, 1000000000ull, 1ull, 7ull});
        ex->get_active_block_parameters_ref().storage_parameters.ticks_per_second = ntps;
        OutM& old = ref.outs.back();
        OutM nw;
        std::string base = new_out(nw);
        trace << "retune(set " << ref.active << " tps=" << ntps << ") + rotate_output(export=1)";
        size_t ret;
        if (kind == 0) ret = ex->rotate_output(base, true); else ret = ex->rotate_output(open_fd(base), true);
        bool wrote = ref.write_block();       // buffered block goes to the old output under the old rate
        ref.sets[ref.active].sp.tps = ntps;   // later headers state the new rate
        pending_switch = false;
        old.ret_sum += ret;
        bool expect_nonzero = wrote || !old.blocks.empty();
        if ((ret != 0) != expect_nonzero) cx.fail(O_C12, "c12.flush_return", "rotate_output after retune returned " + std::to_string(ret) + "\n" + trace.str());
        trace << " -> " << ret << "\n";
        rot_now = true;
        ref.outs.push_back(nw);
        snapshot_closed(ref.outs[ref.outs.size() - 2]);
        cs.st.cls("retuned_tick_rate");
        check_counters("retune+rotate");
        break;
      }
      default: check_counters("query"); break;
    }
    last_was_rot = rot_now;
  }
  // documented usage: the application writes the buffered block before destroying the exporter (profile choice)
  bool final_write = scripted ? false : c.coin();
  if (final_write) {
    size_t ret = ex->write_block();
    bool wrote = ref.write_block();
    ref.outs.back().ret_sum += ret;
    if ((ret != 0) != wrote) cx.fail(O_C12, "c12.flush_return", "final write_block() returned " + std::to_string(ret) + ", model wrote=" + std::to_string(wrote));
    trace << "write_block() [final] -> " << ret << "\n";
  }
  size_t still_buffered = ref.items();
  bool unwind = scripted ? false : c.range(0, 3) == 0;
  if (unwind) {   // destruction while an application exception propagates: the output must be closed just the same
    try { std::unique_ptr<CDNS::CdnsExporter> local = std::move(ex); throw std::logic_error("application error"); }
    catch (const std::logic_error&) {}
    cs.st.cls("destroyed_during_unwinding");
  } else ex.reset();   // destruction
  ref.outs.back().closed_by_destroy = true;
  trace << (unwind ? "destroy during stack unwinding (" : "destroy (") << still_buffered << " items still buffered)\n";
  cs.sample = trace.str();
  if (cs.replay) printf("%s", trace.str().c_str());

  // ---- verification of every output
  size_t total_blocks = 0, total_bytes = 0;
  for (size_t oi = 0; oi < ref.outs.size(); oi++) {
    OutM& o = ref.outs[oi];
    std::string raw, plain, err;
    std::string where = "output #" + std::to_string(oi) + " (" + o.path + ")";
    if (!read_file(o.path, raw)) { cx.fail(O_C02 | O_C13 | O_C01, "c02.output_missing", where + " cannot be read\n" + trace.str()); continue; }
    if (o.snap_taken && raw != o.snapshot) cx.fail(O_C13, "c13.bytes_after_rotation", where + " changed after the rotation that closed it (" + std::to_string(o.snapshot.size()) + " -> " + std::to_string(raw.size()) + " bytes)\n" + trace.str());
    if (o.kind == 0) { struct stat sb; if (::stat(o.part.c_str(), &sb) == 0) cx.fail(O_C13, "c13.part_left", where + ": .part file still exists after the output was closed"); }
    if (o.comp != 0 && raw.empty() && o.kind == 1 && o.blocks.empty()) { /* descriptor never written */ }
    if (!decompress(o.comp, raw, plain, err)) {
      cx.fail(O_C02 | O_C01 | O_C13 | O_C14, "c02.compressed_stream", where + ": " + err + "\n" + trace.str());
      continue;
    }
    total_bytes += plain.size();
    // C10: byte accounting
    {
      uint64_t expect = o.ret_sum + ((o.closed_by_destroy && !o.blocks.empty()) ? 1 : 0);
      if (expect != plain.size())
        cx.fail(O_C10, "c10.byte_sum", where + ": returned byte counts sum to " + std::to_string(o.ret_sum) + (o.closed_by_destroy && !o.blocks.empty() ? " (+1 closing byte at destruction)" : "") +
                                           " but the output holds " + std::to_string(plain.size()) + " uncompressed bytes\n" + trace.str());
    }
    if (o.blocks.empty()) {
      if (!plain.empty()) cx.fail(O_C02 | O_C13, "c02.empty_output_has_data", where + ": no block was written to it but it holds " + std::to_string(plain.size()) + " uncompressed bytes\n" + trace.str());
      continue;
    }
    // C02: one well-formed, schema-valid document
    M::FileM got;
    cdnsref::Report rep;
    bool wf = cdnsref::interpret(plain, got, rep);
    if (!wf || !rep.ok()) {
      std::string sg = rep.first();
      size_t sp = sg.find(' ');
      std::string sig = "c02." + sg.substr(4, sp == std::string::npos ? std::string::npos : sp - 4);
      cx.fail(O_C02 | O_C13, sig, where + ": " + sg + " (" + std::to_string(rep.errors.size()) + " problem(s)); bytes=" + hex(plain, 200) + "\n" + trace.str());
      if (!wf) { cx.fail(O_C01, "c01.unreadable", where + " is not a well-formed document: " + sg + "\n" + trace.str()); continue; }
    }
    // C13 / C09: the preamble of this output holds the sets known when its header was written
    {
      M::Preamble ep = mpre; ep.bps = o.sets_header;
      if (M::dump(ep) != M::dump(got.pre)) cx.fail(O_C01 | O_C13 | O_C04 | O_C09, "c01.preamble", where + ": preamble differs\n expected " + M::dump(ep) + " got      " + M::dump(got.pre) + trace.str());
    }
    // C01 (independent reader)
    if (got.blocks.size() != o.blocks.size()) {
      cx.fail(O_C01 | O_C12 | O_C13, "c01.block_count", where + ": " + std::to_string(got.blocks.size()) + " blocks in the file, model expects " + std::to_string(o.blocks.size()) + "\n" + trace.str());
    } else {
      for (size_t bi = 0; bi < o.blocks.size(); bi++) {
        std::string d = cmp_block(o.blocks[bi], got.blocks[bi]);
        if (!d.empty()) { cx.fail(O_C01 | O_C12 | O_C13, "c01.ref_reader_mismatch", where + " block " + std::to_string(bi) + " (expected vs independent reader):" + d + "\n" + trace.str()); break; }
      }
    }
    // C01 (library reader)
    try {
      std::istringstream is(plain);
      CDNS::CdnsReader rd(is);
      M::Preamble lp = adapt::model_preamble(rd.m_file_preamble);
      std::vector<M::BlockM> lb;
      for (;;) {
        bool eof = false;
        CDNS::CdnsBlockRead b = rd.read_block(eof);
        if (eof) break;
        lb.push_back(adapt::model_block(b));
      }
      if (lb.size() != o.blocks.size()) cx.fail(O_C01, "c01.lib_block_count", where + ": CdnsReader returned " + std::to_string(lb.size()) + " blocks, model expects " + std::to_string(o.blocks.size()) + "\n" + trace.str());
      else for (size_t bi = 0; bi < lb.size(); bi++) {
        std::string d = cmp_block(o.blocks[bi], lb[bi]);
        if (!d.empty()) { cx.fail(O_C01, "c01.lib_reader_mismatch", where + " block " + std::to_string(bi) + " (expected vs CdnsReader):" + d + "\n" + trace.str()); break; }
      }
    } catch (const Failure&) { throw;
    } catch (const std::exception& e) {
      cx.fail(O_C01, "c01.lib_reader_exception", where + ": CdnsReader failed: " + e.what() + "\n" + trace.str());
    }
    // per-block structural oracles on the independent parse
    for (size_t bi = 0; bi < got.blocks.size() && bi < rep.tables.size(); bi++) {
      const M::BlockM& gb = got.blocks[bi];
      const cdnsref::BlockTables& bt = rep.tables[bi];
      std::string bw = where + " block " + std::to_string(bi);
      total_blocks++;
      if (gb.end - gb.begin > 2048) had_big_block = true;
      // C12: size rule (blocks the exporter filled itself): none empty, no array above its maximum
      bool external = bi < o.blocks.size() && o.blocks[bi].external;
      bool app_built = bi < o.blocks.size() && o.blocks[bi].begin == 1;
      if (gb.qrs.size() + gb.aec_entries + gb.mms.size() == 0) cx.fail(O_C12 | O_C02, "c12.empty_block", bw + " has no item\n" + trace.str());
      if (!external && !app_built && gb.bp_index < got.pre.bps.size()) {
        uint64_t mx = (uint64_t)got.pre.bps[gb.bp_index].sp.max_items; if (mx == 0) mx = 1;
        if (gb.qrs.size() > mx || gb.aec_entries > mx || gb.mms.size() > mx)
          cx.fail(O_C12, "c12.block_above_maximum", bw + " holds " + std::to_string(gb.qrs.size()) + "/" + std::to_string(gb.aec_entries) + "/" + std::to_string(gb.mms.size()) + " items, maximum is " + std::to_string(mx) + "\n" + trace.str());
      }
      // C11: no two equal entries in any table
      if (bt.duplicates) cx.fail(O_C11, "c11.duplicate_entry", bw + ": " + std::to_string(bt.duplicates) + " duplicate table entr(ies): " + bt.dup_desc[0] + "\n" + trace.str());
      // C04: orphans, members present vs hints of the block's own parameter set
      if (bt.orphans) cx.fail(O_C04 | O_C11, "c04.orphan_table_entry", bw + ": table entry not reachable from any stored item: " + bt.orphan_desc[0] + " (" + std::to_string(bt.orphans) + " in total)\n" + trace.str());
      if (gb.bp_index < got.pre.bps.size()) {
        const M::Hints& hh = got.pre.bps[gb.bp_index].sp.hints;
        // index-level adds of application-built blocks are documented not to be checked against the parameters
        if (!external) {
          for (size_t qi = 0; qi < bt.qr_keys.size(); qi++) {
            for (int k : bt.qr_keys[qi]) {
              if (k < 0) continue;
              int bit = k <= 10 ? k : -1;
              if (bit >= 0 && !((hh.qr >> bit) & 1)) cx.fail(O_C04, "c04.member_despite_hint", bw + " q/r item " + std::to_string(qi) + " carries member " + std::to_string(k) + " although query-response hint bit " + std::to_string(bit) + " is clear\n" + trace.str());
            }
            static const int QB[4] = {11, 12, 13, 14}, RB[4] = {11, 15, 16, 17};
            for (int k : bt.qext_keys[qi]) if (!((hh.qr >> QB[k]) & 1)) cx.fail(O_C04, "c04.member_despite_hint", bw + " q/r item " + std::to_string(qi) + " query-extended member " + std::to_string(k) + " although hint bit " + std::to_string(QB[k]) + " is clear\n" + trace.str());
            for (int k : bt.rext_keys[qi]) if (!((hh.qr >> RB[k]) & 1)) cx.fail(O_C04, "c04.member_despite_hint", bw + " q/r item " + std::to_string(qi) + " response-extended member " + std::to_string(k) + " although hint bit " + std::to_string(RB[k]) + " is clear\n" + trace.str());
          }
          for (size_t si = 0; si < bt.sig_keys.size(); si++) for (int k : bt.sig_keys[si]) if (!((hh.sig >> k) & 1)) cx.fail(O_C04, "c04.sig_member_despite_hint", bw + " signature " + std::to_string(si) + " carries member " + std::to_string(k) + " although its hint bit is clear\n" + trace.str());
          for (size_t ri = 0; ri < bt.rr_keys.size(); ri++) {
            if (bt.rr_keys[ri].count(2) && !((hh.rr >> M::RR_TTL_BIT) & 1)) cx.fail(O_C04, "c04.rr_member_despite_hint", bw + " rr " + std::to_string(ri) + " carries a ttl although the rr hint is clear\n" + trace.str());
            if (bt.rr_keys[ri].count(3) && !((hh.rr >> M::RR_RDATA_BIT) & 1)) cx.fail(O_C04, "c04.rr_member_despite_hint", bw + " rr " + std::to_string(ri) + " carries rdata although the rr hint is clear\n" + trace.str());
          }
          if (bt.has_aec_array && !((hh.other >> M::OTHER_AEC_BIT) & 1)) cx.fail(O_C04, "c04.aec_despite_hint", bw + " has address-event-counts although the hint is clear\n" + trace.str());
          if (bt.has_mm_array && !((hh.other >> M::OTHER_MM_BIT) & 1)) cx.fail(O_C04, "c04.mm_despite_hint", bw + " has malformed-messages although the hint is clear\n" + trace.str());
        }
      }
      // C17: earliest-time not later than any record time (all stored offsets non-negative and < 2^63)
      if (gb.has_earliest) {
        auto chk = [&](const Fields& f, int id, const char* what, size_t idx) {
          auto it = f.find(id);
          if (it == f.end()) return;
          const M::Ts& t = it->second.ts;
          if (t.secs < gb.earliest.secs || (t.secs == gb.earliest.secs && t.ticks < gb.earliest.ticks))
            cx.fail(O_C17, "c17.earliest_after_record", bw + ": earliest-time " + gb.earliest.show() + " is later than " + what + "[" + std::to_string(idx) + "] time " + t.show() + "\n" + trace.str());
        };
        for (size_t i = 0; i < gb.qrs.size(); i++) chk(gb.qrs[i], M::Q_TS, "q/r", i);
        for (size_t i = 0; i < gb.mms.size(); i++) chk(gb.mms[i], M::M_TS, "mm", i);
      }
    }
  }

  // ---- classes / non-triviality
  bool nondefault_hints = false, nondefault_tps = false;
  for (auto& s : ref.sets) { if (s.sp.hints.qr != gen::QR_ALL || s.sp.hints.sig != gen::SIG_ALL || s.sp.hints.rr != 3 || s.sp.hints.other != 3) nondefault_hints = true; if (s.sp.tps != 1000000) nondefault_tps = true; }
  std::set<uint64_t> sets_used;
  size_t nblocks = 0, recs_in_files = 0;
  for (auto& o : ref.outs) for (auto& b : o.blocks) { sets_used.insert(b.bp_index); nblocks++; recs_in_files += b.qrs.size() + b.mms.size() + b.aecs.size(); }
  Stats& st = cs.st;
  if (nondefault_hints) st.cls("nondefault_hints");
  if (nondefault_tps) st.cls("tps!=1e6");
  if (sets_used.size() > 1) st.cls("multiple_sets_used");
  if (nblocks >= 2) st.cls("blocks>=2");
  if (had_rotation_with_blocks) st.cls("rotation_with_blocks");
  if (had_nonexport_rotation_nonempty) st.cls("nonexport_rotation_nonempty_buffer");
  if (had_consec_rot) st.cls("consecutive_rotations");
  if (had_ext) st.cls("external_block");
  if (had_empty_struct) st.cls("empty_statistics");
  if (had_big_block) st.cls("block>2KiB");
  if (total_bytes > 3 * 65535) st.cls("output>3_decoder_windows");
  else if (total_bytes > 65535) st.cls("output>1_decoder_window");
  if (had_buffer_flush) st.cls("flush_by_buffer_call");
  if (had_switch_flush) st.cls("flush_after_parameter_switch");
  if (comp) st.cls(comp == 1 ? "gzip" : "xz");
  st.cls(kind ? "fd_output" : "named_output");
  if (cx.failures_other) st.cls("cases_with_other_oracle_failures");
  st.cnt("blocks_verified", total_blocks);
  st.cnt("records_in_files", recs_in_files);
  st.cnt("uncompressed_bytes", total_bytes);

  bool rich = nondefault_hints || nondefault_tps || sets_used.size() > 1 || nblocks >= 2 || n_boundaryish > 0 || n_rrlists > 0;
  unsigned o = pf.oracles;
  if (o & O_C14) cs.nontrivial = nblocks >= 1 && comp != 0;
  else if (o & O_C13) cs.nontrivial = had_rotation_with_blocks || had_nonexport_rotation_nonempty || had_consec_rot;
  else if (o & O_C12) cs.nontrivial = (had_buffer_flush && __builtin_popcount(kinds_used) >= 2) || had_switch_flush;
  else if (o & O_C04) {
    bool clear_and_supplied = false;
    cs.nontrivial = nondefault_hints && recs_in_files >= 1 && n_records >= 1;
    (void)clear_and_supplied;
  }
  else if (o & O_C10) cs.nontrivial = nblocks >= 1 && (had_big_block || ref.outs.size() > 1 || comp != 0 || had_empty_struct);
  else if (o & O_C02) cs.nontrivial = nblocks >= 1 && (had_empty_struct || had_ext || ref.outs.size() > 1 || sets_used.size() > 1 || had_big_block);
  else cs.nontrivial = recs_in_files >= 2 && rich;
}

// ---- profiles --------------------------------------------------------------------------------
static Profile P_C01() { Profile p; p.name = "c01"; p.oracles = O_C01; p.w_setactive = 2; p.max_sets = 3; return p; }
static Profile P_C01BIG() { Profile p = P_C01(); p.name = "c01big"; p.big_strings = true; p.ops_per_size = 3; return p; }
static Profile P_C01HUGE() { Profile p = P_C01(); p.name = "c01huge"; p.big_strings = true; p.ops_per_size = 12; p.w_qr = 20; p.w_write = 1; p.pres_fixed = 6; return p; }
static Profile P_C02() { Profile p; p.name = "c02"; p.oracles = O_C02; p.w_ext = 3; p.w_rotate = 2; p.w_addbp = 1; p.w_setactive = 2; return p; }
static Profile P_C04() { Profile p; p.name = "c04"; p.oracles = O_C04; p.pres_fixed = 7; p.w_write = 1; p.w_ext = 2; p.w_addbp = 1; p.w_rotate = 1; p.ext_generic_only = true; p.max_sets = 3; p.w_setactive = 2; p.any_tps = false; p.empty_structs = false; return p; }
static Profile P_C10() { Profile p = P_C02(); p.name = "c10"; p.oracles = O_C10; p.big_strings = true; return p; }
static Profile P_C11() { Profile p; p.name = "c11"; p.oracles = O_C11; p.small_blocks = true; p.hint_modes = false; p.w_write = 1; p.ops_per_size = 2; return p; }
static Profile P_C12() { Profile p; p.name = "c12"; p.oracles = O_C12; p.w_ext = 1; p.small_blocks = true; p.min_sets = 2; p.w_setactive = 3; p.w_counters = 2; p.w_aec = 6; p.w_mm = 5; p.w_write = 2; p.ops_per_size = 2; p.any_tps = false; return p; }
static Profile P_C12E() { Profile p = P_C12(); p.name = "c12enum"; p.enum_mode = true; return p; }
static Profile P_ALIGN(const char* n, unsigned o) { Profile p; p.name = n; p.oracles = o; p.align_mode = true; return p; }
static Profile P_C13() { Profile p; p.name = "c13"; p.oracles = O_C13; p.w_retune = 1; p.w_rotate = 5; p.w_addbp = 2; p.w_setactive = 2; p.w_ext = 1; p.small_blocks = true; return p; }
// C09 over histories: every output of an exporter (not only its first) starts with the preamble as constructed - rotations, blocks
// written in between, parameter sets added and activated
static Profile P_C09() { Profile p; p.name = "c09"; p.oracles = O_C09; p.w_rotate = 5; p.w_addbp = 2; p.w_setactive = 3; p.w_write = 3; p.small_blocks = true; p.max_sets = 4; return p; }
static Profile P_C14() { Profile p = P_C02(); p.name = "c14"; p.oracles = O_C14 | O_C01 | O_C02 | O_C10; p.big_strings = true; p.force_compression = true; p.w_rotate = 3; return p; }
static Profile P_C17() { Profile p; p.name = "c17"; p.oracles = O_C17 | O_C01; p.w_ext = 2; p.w_retune = 2; p.w_rotate = 1; p.hint_modes = false; p.w_mm = 6; p.w_aec = 1; p.pres_fixed = 5; return p; }

// ---- C13: outputs that receive very many blocks (per-output block counters must not wrap) ---------------------
// max_block_items = 1, one tiny record per block; counts around 2^16 (and 2 * 2^16) x {rotation with export, rotation without
// export, destruction}; enumerated.  Every output must be one complete document holding exactly its records, in order.
static void c13_many_blocks(Case& cs) {
  Chooser& c = cs.c;
  static const unsigned COUNTS[] = {65535, 65536, 65537, 131072, 131075};
  uint64_t cell = c.range(0, 5 * 3 - 1);
  unsigned n1 = COUNTS[cell / 3];
  int how = (int)(cell % 3);   // 0 rotate(export=true), 1 rotate(export=false), 2 destroy
  if (cs.size < 60 && n1 > 70000) { cs.st.cnt("skipped_in_quick_tier"); return; }
  CDNS::FilePreamble fp;
  fp.m_block_parameters[0].storage_parameters.max_block_items = 1;
  std::string base = cs.scratch + "/many";
  std::vector<std::string> outs = {base + "0", base + "1"};
  unsigned n2 = 5;
  {
    CDNS::CdnsExporter ex(fp, outs[0], CDNS::CborOutputCompression::NO_COMPRESSION);
    CDNS::GenericQueryResponse q;
    for (unsigned i = 0; i < n1; i++) { q.transaction_id = (uint16_t)(i & 0xFFFF); q.client_port = (uint16_t)(i >> 16); ex.buffer_qr(q); }
    if (how != 2) {
      ex.rotate_output(outs[1], how == 0);
      for (unsigned i = 0; i < n2; i++) { q.transaction_id = (uint16_t)(i + 7); q.client_port = 9; ex.buffer_qr(q); }
    }
  }
  std::string desc = std::to_string(n1) + " blocks of one record into one output, then " + (how == 0 ? "rotate_output(export=true)" : how == 1 ? "rotate_output(export=false)" : "destruction");
  cs.sample = desc;
  for (size_t oi = 0; oi < (how == 2 ? 1u : 2u); oi++) {
    std::string bytes;
    VF_CHECK(read_file(outs[oi], bytes), "sig=c13.many_blocks.missing output " << oi << " missing : " << desc);
    M::FileM fm; cdnsref::Report rep;
    bool wf = cdnsref::interpret(bytes, fm, rep);
    VF_CHECK(wf && rep.ok(), "sig=c13.many_blocks.invalid output " << oi << " (" << bytes.size() << " B) is not one complete valid document: " << rep.first() << " : " << desc);
    size_t want = oi == 0 ? n1 : n2;
    size_t got = 0; bool order = true;
    for (auto& b : fm.blocks) for (auto& r : b.qrs) {
      auto it = r.find(M::Q_TXID);
      uint64_t tx = it == r.end() ? ~0ull : (uint64_t)it->second.i;
      uint64_t expect_tx = oi == 0 ? (got & 0xFFFF) : got + 7;
      if (tx != expect_tx) order = false;
      got++;
    }
    VF_CHECK(got == want && order, "sig=c13.many_blocks.records output " << oi << " holds " << got << " records in " << fm.blocks.size() << " blocks, expected " << want << " in submission order : " << desc);
    ::unlink(outs[oi].c_str());
  }
  cs.nontrivial = true;
  cs.st.cls("blocks_in_one_output:" + std::to_string(n1));
}

int main(int argc, char** argv) {
  Registry r;
  r.add("c13_many_blocks", c13_many_blocks);
  static Profile ps[] = {P_ALIGN("c01align", O_C01), P_ALIGN("c02align", O_C02), P_ALIGN("c10align", O_C10), P_ALIGN("c13align", O_C13), P_ALIGN("c15align", O_C02), P_C01(), P_C01BIG(), P_C01HUGE(), P_C02(), P_C04(), P_C10(), P_C11(), P_C12(), P_C12E(), P_C13(), P_C09(), P_C14(), P_C17()};
  for (auto& p : ps) { const Profile* pp = &p; r.add(std::string("hist_") + p.name, [pp](Case& cs) { hist_case(cs, *pp); }); }
  return harness_main(argc, argv, r);
}
